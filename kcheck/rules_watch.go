package main

// _watcher.run and _watchSession.run tables, resume-version flows (C04, C14).

import (
	"fmt"
	"strings"

	"golang.org/x/tools/go/ssa"
)

func checkWatcherTable(c *Ctx) {
	fn := c.mustFunc("", "_watcher.run")
	if fn == nil {
		return
	}
	rule := "T-TABLE(_watcher.run)"
	pos := c.P.fnPos(fn)
	loop := mainLoop(fn)
	if loop == nil {
		c.undecided(rule, "_watcher.run/shape", pos, "no actor loop found")
		return
	}
	inl := autoInline(c.P, fn, 60)
	if f := c.P.Func("", "_watcher.scheduleRetry"); f != nil {
		inl[f] = true
		c.useFn(f)
	}
	roles := phiRoles(loop.Header, map[string]func(*ssa.Phi) bool{"session": phiTypeIs("watchSession"), "outch": phiTypeIs("chan Event"), "curVersion": phiTypeIs("string"), "retry": phiTypeIs("*time.Timer"), "retrych": phiTypeIs("<-chan string")})
	w := &Walker{P: c.P, Inline: inl, PhiNames: roles}
	paths := w.IterRegion(fn, loop)
	if w.Truncated {
		c.undecided(rule, "_watcher.run/too-many-paths", pos, "path limit exceeded")
		return
	}
	bufLit, _ := c.P.constLit("", "EventBufsiz")
	delayLit, _ := c.P.constLit("", "watchRetryDelay")
	isLC := func(t *Term) bool { return t.IsRecvField("lc") }
	isPhi := func(t *Term, n string) bool { return t != nil && t.K == "phi" && t.S == n }
	armOf := func(pa *Path) (string, *Effect) {
		for _, e := range pa.Effects {
			if e.Kind == "select" && e.Blocking {
				if e.Arm < 0 {
					return "?", e
				}
				ch := e.Sel[e.Arm].Chan
				switch {
				case ch.K == "invoke" && ch.S == "ShutdownRequest" && isLC(ch.A[0]):
					return "shutdown", e
				case ch.IsRecvField("resetch"):
					return "reset", e
				case ch.K == "invoke" && ch.S == "done" && isPhi(ch.A[0], "session"):
					return "sessionDone", e
				case isPhi(ch, "retrych"):
					return "retry", e
				case ch.K == "invoke" && ch.S == "events" && isPhi(ch.A[0], "session"):
					return "sessionEvent", e
				case ch.IsRecvField("evtch"):
					return "eventsRequest", e
				}
				return "?" + ch.Key(), e
			}
		}
		return "?", nil
	}
	recvOf := func(pa *Path) *Term {
		_, e := armOf(pa)
		if e == nil {
			return nil
		}
		return selRecvTerm(e)
	}
	// newSession(v): newWatchSession(ctx derived from WithCancel(w.ctx), w.log, w.client, v)
	isNewSession := func(t *Term, v *Term) string {
		a, ok := isCall(t, "newWatchSession")
		if !ok || len(a) != 4 {
			return ""
		}
		ctxOK := a[0].K == "extract" && a[0].S == "0" && a[0].A[0].K == "call" && strings.HasSuffix(a[0].A[0].S, "context.WithCancel")
		if !ctxOK {
			return "newSession(ctx-NOT-from-watcher-WithCancel)"
		}
		if !a[2].IsRecvField("client") {
			return "newSession(OTHER-client)"
		}
		if sameTerm(a[3], v) {
			return "newSession(v)"
		}
		return "newSession(OTHER-version:" + a[3].Key() + ")"
	}
	ts := &tableSpec{
		Rule:   rule,
		Region: "one iteration of _watcher.run",
		Atoms:  []atomSpec{{"arm", []string{"shutdown", "reset", "sessionDone", "retry", "sessionEvent", "eventsRequest"}}, {"retryArmed", boolDom}, {"sessionLive", boolDom}},
		Extra: func(pa *Path) map[string][]string {
			a, _ := armOf(pa)
			return map[string][]string{"arm": {a}}
		},
		Lit: func(pa *Path, l Lit) litClass {
			if x, ok := isNilTest(l.T); ok && isPhi(x, "retry") {
				return litClass{Atom: "retryArmed", IfTrue: []string{"F"}, OK: true}
			}
			// tail: if donech := session.done(); donech != nil
			if x, ok := isNilTest(l.T); ok && x.K == "invoke" && x.S == "done" && isPhi(x.A[0], "session") {
				return litClass{Atom: "sessionLive", IfTrue: []string{"F"}, OK: true}
			}
			return litClass{}
		},
		Outcome: func(pa *Path) ([]string, string) {
			arm, _ := armOf(pa)
			if strings.HasPrefix(arm, "?") {
				return nil, "unknown select arm " + arm
			}
			rv := recvOf(pa)
			var out []string
			var retryTimer, retryChan *Term
			for _, e := range pa.Effects {
				switch e.Kind {
				case "select":
					if e.Blocking {
						continue
					}
					// forwarding of a session event: non-blocking send of the received event on the loop's outch
					if len(e.Sel) == 1 && e.Sel[0].Send != nil && isPhi(e.Sel[0].Chan, "outch") && sameTerm(e.Sel[0].Send, rv) && arm == "sessionEvent" {
						out = append(out, "forward(evt)->outch[nonblocking]")
					} else {
						out = append(out, "select-nonblocking(OTHER)")
					}
				case "send":
					if arm == "eventsRequest" && sameTerm(e.Addr, rv) && isPhi(e.Val, "outch") {
						out = append(out, "reply(outch)")
					} else {
						return nil, "unexpected send: " + e.String()
					}
				case "invoke":
					switch {
					case e.IsPure():
					case (e.Method == "done" || e.Method == "events") && isPhi(e.Recv, "session"):
					case e.Method == "stop" && isPhi(e.Recv, "session"):
						out = append(out, "session.stop")
					case e.Method == "ShutdownInitiated" && isLC(e.Recv):
						if sameTerm(e.Args[0], rv) && arm == "shutdown" {
							out = append(out, "initiate(request-error)")
						} else {
							out = append(out, "initiate(OTHER:"+e.Args[0].Key()+")")
						}
					case e.Method == "ShutdownCompleted" && isLC(e.Recv):
					default:
						return nil, "unexpected call: " + e.String()
					}
				case "call":
					name := ""
					if e.Fn != nil {
						name = fnName(e.Fn)
					}
					switch {
					case e.IsPure():
					case name == "newWatchSession":
						// classified through the next value of `session`
					case strings.HasSuffix(name, "time.Timer.Stop") && isPhi(e.Args[0], "retry"):
						out = append(out, "retry.Stop")
					case strings.HasSuffix(name, "time.AfterFunc"):
						// AfterFunc(watchRetryDelay, closure sending curVersion on a fresh cap>=1 channel)
						retryTimer = e.Res
						okd := e.Args[0].K == "const" && e.Args[0].S == delayLit
						cl := e.Args[1]
						okc := cl.K == "closure" && len(cl.A) == 2
						if okc {
							// bindings: ch alloc, vsn alloc — resolve through the stores on the path
							vals := map[string]*Term{}
							for k, v := range pa.State.mem {
								vals[k] = v
							}
							var chV, vsnV *Term
							for _, b := range cl.A {
								if v, ok := vals[b.Key()]; ok {
									if v.K == "makechan" {
										chV = v
									} else {
										vsnV = v
									}
								}
							}
							if chV != nil && vsnV != nil && isPhi(vsnV, "curVersion") && chV.A[0].K == "const" && chV.A[0].S != "0" {
								retryChan = chV
							} else {
								okc = false
							}
						}
						if okd && okc {
							out = append(out, "retry:=AfterFunc(watchRetryDelay, send curVersion on fresh buffered ch)")
						} else {
							out = append(out, "retry:=AfterFunc(OTHER)")
						}
					case e.Mode == "dyncall" || e.Kind == "call" && e.Fn == nil:
						return nil, "unexpected dynamic call: " + e.String()
					default:
						return nil, "unexpected call: " + e.String()
					}
				case "dyncall":
					// cancel() in the tail
					if e.Recv.K == "extract" && e.Recv.S == "1" && e.Recv.A[0].K == "call" && strings.HasSuffix(e.Recv.A[0].S, "context.WithCancel") {
						out = append(out, "cancel()")
					} else {
						return nil, "unexpected dynamic call: " + e.String()
					}
				case "recv":
					if e.Addr.K == "invoke" && e.Addr.S == "done" && isPhi(e.Addr.A[0], "session") {
						out = append(out, "wait(session.done)")
					} else {
						return nil, "unexpected receive: " + e.String()
					}
				case "store":
					if e.Addr.K == "alloc" {
						continue // captured locals of the retry closure
					}
					return nil, "unexpected store: " + e.String()
				case "rundefers", "defer":
				default:
					return nil, "unexpected effect: " + e.String()
				}
			}
			switch pa.End.Kind {
			case "stop":
				for _, name := range sortedKeys(pa.PhiNext) {
					v := pa.PhiNext[name]
					if isPhi(v, name) {
						continue
					}
					switch name {
					case "session":
						if s := isNewSession(v, rv); s != "" {
							out = append(out, "session':="+s)
						} else if v.K == "const" && strings.HasPrefix(v.S, "zero:nullWatchSession") {
							out = append(out, "session':=null")
						} else {
							out = append(out, "session':=OTHER:"+v.Key())
						}
					case "outch":
						if v.K == "makechan" && v.A[0].K == "const" && v.A[0].S == bufLit {
							out = append(out, "outch':=fresh(EventBufsiz)")
						} else {
							out = append(out, "outch':=OTHER:"+v.Key())
						}
					case "curVersion":
						switch {
						case sameTerm(v, rv) && arm == "reset":
							out = append(out, "curVersion':=v")
						case arm == "sessionEvent" && v.K == "invoke" && v.S == "GetResourceVersion" && v.A[0].K == "invoke" && v.A[0].S == "Resource" && sameTerm(v.A[0].A[0], rv):
							out = append(out, "curVersion':=evt.version")
						default:
							out = append(out, "curVersion':=OTHER:"+v.Key())
						}
					case "retry":
						switch {
						case v.IsNil():
							out = append(out, "retry':=nil")
						case retryTimer != nil && sameTerm(v, retryTimer):
							out = append(out, "retry':=timer")
						default:
							out = append(out, "retry':=OTHER")
						}
					case "retrych":
						switch {
						case v.IsNil():
							out = append(out, "retrych':=nil")
						case retryChan != nil && sameTerm(v, retryChan):
							out = append(out, "retrych':=ch")
						default:
							out = append(out, "retrych':=OTHER:"+v.Key())
						}
					default:
						out = append(out, name+"':=CHANGED")
					}
				}
			case "return":
				out = append(out, "exit")
			default:
				return nil, "path ends in " + pa.End.Kind
			}
			return out, ""
		},
		Expected: func(v map[string]string) [][]string {
			armed := v["retryArmed"] == "T"
			live := v["sessionLive"] == "T"
			switch v["arm"] {
			case "shutdown":
				base := []string{"initiate(request-error)", "cancel()", "exit"}
				if armed {
					base = append(base, "retry.Stop")
				}
				if live {
					base = append(base, "wait(session.done)")
				}
				return [][]string{base}
			case "reset":
				base := []string{"session.stop", "session':=newSession(v)", "outch':=fresh(EventBufsiz)", "curVersion':=v"}
				if armed {
					return [][]string{append(base, "retry.Stop", "retry':=nil", "retrych':=nil")}
				}
				// retry == nil ⇒ retrych == nil (both are only ever set together): unchanged or nil
				return [][]string{base, append(append([]string{}, base...), "retrych':=nil"), append(append([]string{}, base...), "retry':=nil", "retrych':=nil")}
			case "sessionDone":
				base := []string{"session':=null", "retry:=AfterFunc(watchRetryDelay, send curVersion on fresh buffered ch)", "retry':=timer", "retrych':=ch"}
				return [][]string{base, append(append([]string{}, base...), "session.stop")}
			case "retry":
				return [][]string{{"session':=newSession(v)", "retry':=nil", "retrych':=nil"}}
			case "sessionEvent":
				return [][]string{{"forward(evt)->outch[nonblocking]", "curVersion':=evt.version"}}
			case "eventsRequest":
				return [][]string{{"reply(outch)"}}
			}
			return nil
		},
	}
	rows := c.runTable(ts, "_watcher.run", pos, paths)
	c.notes = append(c.notes, fmt.Sprintf("_watcher.run: %d iteration paths, %d abstract rows", len(paths), rows))

	// the retry closure sends its captured version on its captured channel, nothing else
	var retryCl *ssa.Function
	if sr := c.mustFunc("", "_watcher.scheduleRetry"); sr != nil {
		retryCl = closureArgOf(sr, "time.AfterFunc")
		if retryCl == nil {
			c.undecided(rule, "_watcher.scheduleRetry$1/sends-captured-version-once", c.P.fnPos(sr), "scheduleRetry does not hand exactly one closure to time.AfterFunc")
		}
	}
	if cl := retryCl; cl != nil {
		c.useFn(cl)
		ps := (&Walker{P: c.P}).FuncRegion(cl)
		c.paths += len(ps)
		ok := len(ps) == 1
		if ok {
			n := 0
			for _, e := range ps[0].Effects {
				switch {
				case e.Kind == "send" && e.Addr.K == "load" && e.Addr.A[0].K == "freevar" && e.Val.K == "load" && e.Val.A[0].K == "freevar":
					n++
				case e.Kind == "select" && !e.Blocking, e.IsPure(), e.Kind == "rundefers":
				case e.Kind == "select" && e.Blocking:
					// select { ch <- vsn; <-ShuttingDown }: fine too
					n++
				default:
					ok = false
				}
			}
			ok = ok && n == 1
		}
		c.check(ok, rule, "_watcher.scheduleRetry$1/sends-captured-version-once", c.P.fnPos(cl), "", "the retry timer callback does not just deliver the captured resume version on its channel")
	}

	// initial state: null session, nil outch/retry/retrych
	pre := (&Walker{P: c.P, PhiNames: roles}).PreludeRegion(fn, loop)
	c.paths += len(pre)
	okk := len(pre) == 1
	detail := ""
	if okk {
		nx := pre[0].PhiNext
		if v := nx["session"]; v == nil || !(v.K == "const" && strings.HasPrefix(v.S, "zero:nullWatchSession")) {
			okk, detail = false, "session does not start as the null session"
		}
		for _, n := range []string{"outch", "retry", "retrych"} {
			if v := nx[n]; v == nil || !v.IsNil() {
				okk, detail = false, n+" does not start nil (events could be handed out before the first reset)"
			}
		}
	}
	c.check(okk, rule, "_watcher.run/initial-state", pos, "null session; outch, retry, retrych nil", "_watcher.run initial state: "+detail)
}

// checkWatcherAPI: reset/events request plumbing.
func checkWatcherAPI(c *Ctx) {
	rule := "T-FLOW(watcher-api)"
	if fn := c.mustFunc("", "_watcher.reset"); fn != nil {
		paths := (&Walker{P: c.P}).FuncRegion(fn)
		c.paths += len(paths)
		ok := false
		for _, pa := range paths {
			for _, e := range pa.Effects {
				if e.Kind == "select" && e.Arm >= 0 && e.Sel[e.Arm].Send != nil && e.Sel[e.Arm].Chan.IsRecvField("resetch") && e.Sel[e.Arm].Send.K == "param" {
					ok = len(pa.End.Results) == 1 && pa.End.Results[0].IsNil()
				}
			}
		}
		c.check(ok, rule, "_watcher.reset/sends-version-on-resetch", c.P.fnPos(fn), "", "reset does not deliver its argument on resetch and return nil")
	}
	if fn := c.mustFunc("", "_watcher.events"); fn != nil {
		paths := (&Walker{P: c.P}).FuncRegion(fn)
		c.paths += len(paths)
		ok := false
		for _, pa := range paths {
			for _, e := range pa.Effects {
				if e.Kind == "select" && e.Arm >= 0 && e.Sel[e.Arm].Send != nil && e.Sel[e.Arm].Chan.IsRecvField("evtch") && e.Sel[e.Arm].Send.K == "makechan" {
					// returns what is received on that reply channel
					if len(pa.End.Results) == 1 && pa.End.Results[0].K == "recv" && sameTerm(pa.End.Results[0].A[0], e.Sel[e.Arm].Send) {
						ok = true
					}
				}
			}
		}
		c.check(ok, rule, "_watcher.events/returns-the-loop's-reply", c.P.fnPos(fn), "", "events() does not return the channel answered by the watcher loop")
	}
}

// ---------- watch session ----------

func checkSessionTable(c *Ctx) {
	fn := c.mustFunc("", "_watchSession.run")
	if fn == nil {
		return
	}
	rule := "T-TABLE(_watchSession.run)"
	pos := c.P.fnPos(fn)
	loop := mainLoop(fn)
	if loop == nil {
		c.undecided(rule, "_watchSession.run/shape", pos, "no actor loop found")
		return
	}
	w := &Walker{P: c.P, Inline: autoInline(c.P, fn, 8)}
	// connect() is summarised separately, never inlined
	if f := c.P.Func("", "_watchSession.connect"); f != nil {
		delete(w.Inline, f)
	}
	paths := w.IterRegion(fn, loop)
	if w.Truncated {
		c.undecided(rule, "_watchSession.run/too-many-paths", pos, "path limit exceeded")
		return
	}
	isLC := func(t *Term) bool { return t.IsRecvField("lc") }
	litOf := func(name string) string {
		// watch.Added etc. are constants of k8s.io/apimachinery/pkg/watch
		sp := c.P.SPkg["k8s.io/apimachinery/pkg/watch"]
		if sp == nil {
			return "?"
		}
		if k, ok := sp.Members[name].(*ssa.NamedConst); ok {
			return constTerm(k.Value).S
		}
		return "?"
	}
	added, modified, deleted := litOf("Added"), litOf("Modified"), litOf("Deleted")
	lc, lu, ld := "", "", ""
	lc, _ = c.P.constLit("", "EventTypeCreate")
	lu, _ = c.P.constLit("", "EventTypeUpdate")
	ld, _ = c.P.constLit("", "EventTypeDelete")
	armOf := func(pa *Path) (string, *Effect) {
		for _, e := range pa.Effects {
			if e.Kind == "select" && e.Blocking {
				if e.Arm < 0 {
					return "?", e
				}
				ch := e.Sel[e.Arm].Chan
				switch {
				case ch.K == "invoke" && ch.S == "ShutdownRequest" && isLC(ch.A[0]):
					return "shutdown", e
				case ch.K == "invoke" && ch.S == "ResultChan":
					return "frame", e
				}
				return "?" + ch.Key(), e
			}
		}
		return "?", nil
	}
	recvOf := func(pa *Path) *Term {
		_, e := armOf(pa)
		if e == nil {
			return nil
		}
		return selRecvTerm(e)
	}
	isFrameField := func(pa *Path, t *Term, f string) bool { return t.IsField(f) && sameTerm(t.A[0], recvOf(pa)) }
	isAccessor := func(pa *Path, t *Term) bool {
		return t != nil && t.K == "call" && strings.HasSuffix(t.S, "meta.Accessor") && len(t.A) == 1 && isFrameField(pa, t.A[0], "Object")
	}
	ts := &tableSpec{
		Rule:   rule,
		Region: "one iteration of _watchSession.run",
		Atoms:  []atomSpec{{"arm", []string{"shutdown", "frame"}}, {"open", boolDom}, {"isStatus", boolDom}, {"errAccessor", boolDom}, {"type", []string{"Added", "Modified", "Deleted", "other"}}},
		Extra: func(pa *Path) map[string][]string {
			a, _ := armOf(pa)
			m := map[string][]string{"arm": {a}}
			// event type from the equality literals on kevt.Type
			allowed := map[string]bool{"Added": true, "Modified": true, "Deleted": true, "other": true}
			for _, l := range pa.Lits {
				for name, lit := range map[string]string{"Added": added, "Modified": modified, "Deleted": deleted} {
					if x, ok := eqConst(l.T, lit); ok && isFrameField(pa, x, "Type") {
						if l.Val {
							for k := range allowed {
								if k != name {
									delete(allowed, k)
								}
							}
						} else {
							delete(allowed, name)
						}
					}
				}
			}
			var vs []string
			for k := range allowed {
				vs = append(vs, k)
			}
			m["type"] = vs
			return m
		},
		Lit: func(pa *Path, l Lit) litClass {
			t := l.T
			if t.K == "selok" {
				return litClass{Atom: "open", IfTrue: []string{"T"}, OK: true}
			}
			if t.K == "assertok" && strings.HasSuffix(t.S, "v1.Status") && isFrameField(pa, t.A[0], "Object") {
				return litClass{Atom: "isStatus", IfTrue: []string{"T"}, OK: true}
			}
			if x, ok := isNilTest(t); ok && x.K == "extract" && x.S == "1" && isAccessor(pa, x.A[0]) {
				return litClass{Atom: "errAccessor", IfTrue: []string{"F"}, OK: true}
			}
			for _, lit := range []string{added, modified, deleted} {
				if x, ok := eqConst(t, lit); ok && isFrameField(pa, x, "Type") {
					return litClass{Ignore: true, OK: true}
				}
			}
			return litClass{}
		},
		Outcome: func(pa *Path) ([]string, string) {
			arm, _ := armOf(pa)
			if strings.HasPrefix(arm, "?") {
				return nil, "unknown select arm " + arm
			}
			rv := recvOf(pa)
			var out []string
			for _, e := range pa.Effects {
				switch e.Kind {
				case "select":
					if e.Blocking {
						continue
					}
					tok := "select-nonblocking(OTHER)"
					if len(e.Sel) == 1 && e.Sel[0].Send != nil && e.Sel[0].Chan.IsRecvField("outch") {
						lit, x, ok := newEventOf(e.Sel[0].Send)
						if ok && x.K == "extract" && x.S == "0" && isAccessor(pa, x.A[0]) {
							name := map[string]string{lc: "create", lu: "update", ld: "delete"}[lit]
							tok = "emit(" + name + ",obj)[nonblocking]"
						}
					}
					out = append(out, tok)
				case "send":
					return nil, "blocking send in the session loop: " + e.String()
				case "invoke":
					switch {
					case e.IsPure():
					case e.Method == "ResultChan":
					case e.Method == "ShutdownInitiated" && isLC(e.Recv):
						a := e.Args[0]
						switch {
						case a.IsNil():
							out = append(out, "initiate(nil)")
						case arm == "shutdown" && sameTerm(a, rv):
							out = append(out, "initiate(request-error)")
						case termContains(a, func(x *Term) bool { return x.K == "extract" && x.S == "1" && isAccessor(pa, x.A[0]) }):
							out = append(out, "initiate(accessor-err)")
						default:
							out = append(out, "initiate(OTHER)")
						}
					case e.Method == "ShutdownCompleted" && isLC(e.Recv):
					case e.Method == "Stop": // deferred conn.Stop()
						out = append(out, "conn.Stop")
					default:
						return nil, "unexpected call: " + e.String()
					}
				case "call":
					if e.IsPure() || e.Fn != nil && (strings.HasSuffix(fnName(e.Fn), "meta.Accessor") || strings.Contains(fnName(e.Fn), "GetResourceVersion")) {
						continue
					}
					return nil, "unexpected call: " + e.String()
				case "dyncall":
					if e.Recv.IsRecvField("cancel") {
						out = append(out, "cancel()")
						continue
					}
					return nil, "unexpected dynamic call: " + e.String()
				case "rundefers", "defer":
				case "store":
					return nil, "unexpected store: " + e.String()
				default:
					return nil, "unexpected effect: " + e.String()
				}
			}
			switch pa.End.Kind {
			case "stop":
				for name, v := range pa.PhiNext {
					if !(v.K == "phi" && v.S == name) {
						out = append(out, name+"'=CHANGED")
					}
				}
			case "return":
				out = append(out, "exit")
			default:
				return nil, "path ends in " + pa.End.Kind
			}
			return out, ""
		},
		Expected: func(v map[string]string) [][]string {
			T := func(a string) bool { return v[a] == "T" }
			exit := func(tok string) [][]string { return [][]string{{tok, "exit"}} }
			if v["arm"] == "shutdown" {
				return exit("initiate(request-error)")
			}
			if !T("open") {
				return exit("initiate(nil)")
			}
			if T("isStatus") {
				return [][]string{{}}
			}
			if T("errAccessor") {
				return exit("initiate(accessor-err)")
			}
			switch v["type"] {
			case "Added":
				return [][]string{{"emit(create,obj)[nonblocking]"}}
			case "Modified":
				return [][]string{{"emit(update,obj)[nonblocking]"}}
			case "Deleted":
				return [][]string{{"emit(delete,obj)[nonblocking]"}}
			}
			return [][]string{{}}
		},
	}
	rows := c.runTable(ts, "_watchSession.run", pos, paths)
	c.notes = append(c.notes, fmt.Sprintf("_watchSession.run: %d iteration paths, %d abstract rows", len(paths), rows))

	// prelude: connect; error → initiate(error) and return without entering the loop
	pre := (&Walker{P: c.P}).PreludeRegion(fn, loop)
	c.paths += len(pre)
	okk, detail := len(pre) == 2, ""
	for _, pa := range pre {
		var conn *Term
		for _, e := range pa.Effects {
			if e.Kind == "call" && e.Fn != nil && fnName(e.Fn) == "_watchSession.connect" {
				conn = e.Res
			}
		}
		if conn == nil {
			okk, detail = false, "a prelude path does not call connect()"
			continue
		}
		switch pa.End.Kind {
		case "return":
			init := 0
			for _, e := range pa.Effects {
				if e.Kind == "invoke" && e.Method == "ShutdownInitiated" {
					init++
					if e.Args[0].IsNil() || !termContains(e.Args[0], func(x *Term) bool { return x.K == "extract" && x.S == "1" && sameTerm(x.A[0], conn) }) {
						okk, detail = false, "connect failure is not recorded as the session's error"
					}
				}
			}
			if init != 1 {
				okk, detail = false, "connect failure path does not initiate the session's shutdown exactly once"
			}
		case "stop":
		default:
			okk, detail = false, "prelude path ends in "+pa.End.Kind
		}
	}
	c.check(okk, rule, "_watchSession.run/connect-then-loop", pos, "connect error ends only the session", "_watchSession.run prelude: "+detail)
}

// checkSessionFlows: connect() options and constructor flows.
func checkSessionFlows(c *Ctx) {
	rule := "T-FLOW(watch-session)"
	if fn := c.mustFunc("", "_watchSession.connect"); fn != nil {
		paths := (&Walker{P: c.P}).FuncRegion(fn)
		c.paths += len(paths)
		ok, detail := len(paths) == 1, ""
		n := 0
		if ok {
			for _, e := range paths[0].Effects {
				if e.Kind == "invoke" && e.Method == "Watch" && e.Recv.IsRecvField("client") {
					n++
					if !e.Args[0].IsRecvField("ctx") {
						ok, detail = false, "Watch is not given the session context"
					}
					o := e.Args[1]
					rvOK, wOK := false, false
					if o.K == "struct" {
						for _, a := range o.A {
							if a != nil && a.IsRecvField("version") {
								rvOK = true
							}
							if a != nil && a.K == "const" && a.S == "true" {
								wOK = true
							}
						}
					}
					// the ResourceVersion field specifically: find by struct field index
					if !rvOK || !wOK {
						ok, detail = false, "ListOptions is not {ResourceVersion: s.version, Watch: true}: "+o.Key()
					}
				}
			}
			if ok && n == 1 {
				r := paths[0].End.Results
				ok = len(r) == 2
			}
		}
		c.check(ok && n == 1, rule, "_watchSession.connect/Watch(s.ctx,{ResourceVersion:s.version,Watch:true})", c.P.fnPos(fn), "", "connect: "+detail)
	}
	if fn := c.mustFunc("", "newWatchSession"); fn != nil && len(fn.Params) == 4 {
		paths := (&Walker{P: c.P}).FuncRegion(fn)
		c.paths += len(paths)
		ok, detail := len(paths) == 1, ""
		if ok {
			stores := map[string]*Term{}
			var wc *Term
			for _, e := range paths[0].Effects {
				if e.Kind == "store" && e.Addr.K == "faddr" {
					stores[e.Addr.S] = e.Val
				}
				if e.Kind == "call" && e.Fn != nil && strings.HasSuffix(fnName(e.Fn), "context.WithCancel") {
					wc = e.Res
					if !(e.Args[0].K == "param" && e.Args[0].S == fn.Params[0].Name()) {
						ok, detail = false, "session context is not derived from the constructor's context"
					}
				}
			}
			if v := stores["version"]; v == nil || !(v.K == "param" && v.S == fn.Params[3].Name()) {
				ok, detail = false, "s.version is not the constructor's version argument"
			}
			if v := stores["client"]; v == nil || !(v.K == "param" && v.S == fn.Params[2].Name()) {
				ok, detail = false, "s.client is not the constructor's client"
			}
			if wc == nil {
				ok, detail = false, "no cancellable context"
			} else {
				if v := stores["ctx"]; v == nil || !(v.K == "extract" && v.S == "0" && sameTerm(v.A[0], wc)) {
					ok, detail = false, "s.ctx is not the cancellable context"
				}
				if v := stores["cancel"]; v == nil || !(v.K == "extract" && v.S == "1" && sameTerm(v.A[0], wc)) {
					ok, detail = false, "s.cancel is not that context's cancel function"
				}
			}
			bufLit, _ := c.P.constLit("", "EventBufsiz")
			if v := stores["outch"]; v == nil || !(v.K == "makechan" && v.A[0].K == "const" && v.A[0].S == bufLit) {
				ok, detail = false, "outch is not a fresh channel of capacity EventBufsiz"
			}
		}
		c.check(ok, rule, "newWatchSession/fields", c.P.fnPos(fn), "", "newWatchSession: "+detail)
	}
	// stop(): cancels the session context before requesting shutdown (D5)
	if fn := c.mustFunc("", "_watchSession.stop"); fn != nil {
		paths := (&Walker{P: c.P}).FuncRegion(fn)
		c.paths += len(paths)
		ok := len(paths) == 1
		ci, si := -1, -1
		if ok {
			for k, e := range paths[0].Effects {
				if e.Kind == "dyncall" && e.Recv.IsRecvField("cancel") {
					ci = k
				}
				if e.Kind == "invoke" && (e.Method == "ShutdownAsync" || e.Method == "Shutdown") && e.Recv.IsRecvField("lc") {
					si = k
				}
			}
		}
		c.check(ok && ci >= 0 && si > ci, "T-WAIT(session.stop)", "_watchSession.stop/cancel-before-ShutdownAsync", c.P.fnPos(fn), "",
			"_watchSession.stop does not cancel the session context before ShutdownAsync: run() performs client.Watch before it serves shutdown requests, so stop() can block for as long as the connect takes (watcher and controller wedge, Close() hangs)")
	}
}

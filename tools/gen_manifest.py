#!/usr/bin/env python3
"""Regenerates /verif/MANIFEST.json from the table below (kept next to the checker so the two stay in step)."""
import json

ENV = "GOFLAGS=-mod=mod GOPROXY=off GOSUMDB=off GOTOOLCHAIN=local GOWORK=off"
SETUP = f"cd /verif/kcheck && {ENV} go build -o /verif/bin/kcheck ."

TRUST = ("Trusted base: go/packages + go/types + go/ssa of golang.org/x/tools v0.29.0 on /repo's working tree (default build "
         "configuration; the loader fails if a build-constrained production file appears); go-lifecycle v0.1.0 semantics as read; "
         "Go channel/memory-model semantics; the frozen tables in kcheck (atom recognisers, reference tables, blocking classes, "
         "trusted-pure functions). An unrecognised shape, a missing anchor, a type error, a rule below its instance floor or a "
         "checker panic all FAIL the check (kind=undecided) rather than pass.")

# id -> (technique, level category, text, design_ref)
CLAIMS = {
 "C01": ("path-sensitive decision-table extraction over SSA (doUpdate, doSync item/sweep, run dispatch) + field confinement",
         "other", "Decides the per-step transition function of the cache for every abstract input (all objects, versions, filters; "
         "by induction every history): each acyclic SSA path of doUpdate / one doSync element / the sweep is compared with the reference "
         "semantics; plus single-owner confinement of items/filter, key construction, doRefilter flow, no Accept on an absent entry. "
         "Does not decide filter purity or duplicates beyond the left fold.", "DESIGN.md §5 C01"),
 "C03": ("transition-table extraction of controller.run + shape rules for the list helpers",
         "other", "Decides that every list result is reconciled into the cache, published (after the first) and followed by a watch "
         "reset at that list's version, that every failure initiates shutdown with its cause, that the list arm is always enabled and "
         "the watcher channel re-read each iteration, and that lists are requested with empty ListOptions. Convergence time and "
         "server behaviour are not decided.", "DESIGN.md §5 C03"),
 "C04": ("transition-table extraction of _watcher.run and _watchSession.run (loop-carried state read off SSA phis) + value-flow",
         "other", "Decides the structural clauses of watch continuity: frame dispatch, resume at the version of the last event taken, "
         "reconnect re-armed after every session end and never fatal, output channel stable across reconnects and replaced (fresh) only "
         "by reset, controller re-reads events() each iteration. Server replay and latency are not decided.", "DESIGN.md §5 C04"),
 "C05": ("no-spawn / single-sender / who-may-call analysis + shape rules of the distributors and pub/sub run loops",
         "other", "Decides, for all schedules, the structure in-order exactly-once delivery needs: no goroutine on the event path, one "
         "sending function per event channel, distributors are complete single ranges with one delivery per element, the publisher map "
         "is confined to its loop, registration returns the registered subscription, cache replies after its handler. Overflow and "
         "fairness are premises.", "DESIGN.md §5 C05"),
 "C06": ("transition-table extraction of filterSubscription.run + constructor/accessor value-flow",
         "other", "Decides every step of the filtered-subscription state machine (P/pending/ready/D × isNew/ok/errors) against the "
         "reference table, the constructor flows (private cache built with the filter, deferred variants start from the reject-all "
         "filter) and the event distribution shape; the drained-state equality follows by induction over steps and is not itself decided.",
         "DESIGN.md §5 C06-C08"),
 "C10": ("channel-operation inventory (non-blocking sends, buffer capacities) + blocking classification + who-may-call",
         "other", "Decides that no stage of the event path can be blocked by a consumer: all consumer-facing sends are select-with-default "
         "on buffers of capacity EventBufsiz, hand-off receivers have no blocking operation besides their loop select, callbacks run "
         "only on the monitor goroutine. Which events drop under overflow is not decided.", "DESIGN.md §5 C10"),
 "C11": ("value-flow of stop channels through constructors + who-may-call on Shutdown/Close + linearity of feeding subscriptions",
         "other", "Decides stop-channel wiring downwards, exit-on-parent-close rows of the consumer loops, Events() closed once by its "
         "only sender on exit, Shutdown requested only on the receiver's own lifecycle, every other Close forwarding to the one "
         "exclusively-owned feeding subscription. 'Eventually' needs C12 and the scheduler.", "DESIGN.md §5 C11"),
 "C12": ("lifecycle typestate data-flow + exhaustive blocking-operation inventory with justified classes + must-fact analysis of join waits",
         "other", "Decides: ShutdownInitiated exactly once on every path to return of every run function; every blocking operation of the "
         "root/join/client packages falls in a justified class K1..K9; every join-wait is preceded on all paths by what stops its target; "
         "reply channels buffered; goroutine inventory; contexts of external calls cancelled at shutdown. Bounds in seconds are not decided.",
         "DESIGN.md §5 C12"),
 "C13": ("phase-table extraction of _lister.run and _ticker.run + period value-flow",
         "other", "Decides that exactly one of tick/list/deliver is armed in every phase (lists one at a time, cycle has no dead end), "
         "that the ticker is re-armed after each consumed result, drained without blocking and a pending tick is disabled on reset, and that "
         "the configured period reaches the timer. Numeric spacing is not decided.", "DESIGN.md §5 C13"),
 "C16": ("decision-table extraction of monitor.run + who-may-call on Handler methods",
         "other", "Decides: OnInitialize exactly once before the event loop with the list taken at readiness; one callback per event by "
         "type with that event's resource; none on shutdown/early-close paths; no goroutine; callbacks only from monitor.run; Done() is the "
         "monitor's own lifecycle; typed monitors forward slot-for-slot.", "DESIGN.md §5 C16"),
}

def main():
    props = [json.loads(l) for l in open('/verif/properties.jsonl')]
    checks = []
    na = []
    for p in props:
        pid = p['id']
        if pid in CLAIMS:
            tech, cat, text, ref = CLAIMS[pid]
            checks.append({
                "property_id": pid,
                "quick_cmd": f"/verif/bin/kcheck -prop {pid} -tier quick",
                "thorough_cmd": f"/verif/bin/kcheck -prop {pid} -tier thorough",
                "evidence_file": f"/verif/evidence/{pid}.json",
                "replay_cmd_template": "/verif/bin/kcheck -explain {path}",
                "engine": "kcheck",
                "level_claimed": {"category": cat, "text": text, "design_ref": ref},
                "level_note": TRUST,
                "technique": "static analysis: " + tech,
            })
        else:
            na.append({"property_id": pid, "reason": "check under construction in this session (rules designed in DESIGN.md §5); will be claimed once implemented and validated"})
    m = {
        "version": 1,
        "setup_cmd": SETUP,
        "hooks": {"guard": "verif", "enable": "none needed: static analysis reads /repo's source as it is; no hook commits exist",
                  "baseline_off_cmd": "cd /repo && GOFLAGS=-mod=mod GOPROXY=off go test -vet=off -count=1 ./...",
                  "source_commits": [], "add_only": True},
        "engines": [{"name": "kcheck", "path": "/verif/kcheck", "serves_properties": sorted(CLAIMS),
                     "kind_free_text": "repository-specific static analyser on go/packages + go/ssa (x/tools v0.29.0): region path walker, decision-table comparison, typestate/dataflow, confinement and who-may-call rules"}],
        "checks": checks,
        "not_applicable": na,
        "notes": "All checks are pure static analysis of /repo's current working tree (nothing is executed). Genuine defects found and repaired: see known_findings.json and DESIGN.md §6.",
    }
    if not na:
        del m["not_applicable"]
    json.dump(m, open('/verif/MANIFEST.json', 'w'), indent=1)
    print("claimed", len(checks), "not_applicable", len(na))

if __name__ == '__main__':
    main()

package main

// monitor.run tables and callback discipline (C16).

import (
	"fmt"
	"go/types"
	"strings"

	"golang.org/x/tools/go/ssa"
)

func checkMonitorTable(c *Ctx) {
	fn := c.mustFunc("", "monitor.run")
	if fn == nil {
		return
	}
	rule := "T-TABLE(monitor.run)"
	pos := c.P.fnPos(fn)
	loop := mainLoop(fn)
	if loop == nil {
		c.undecided(rule, "monitor.run/shape", pos, "no event loop found")
		return
	}
	isSub := func(t *Term) bool { return t.IsRecvField("sub") }
	isLC := func(t *Term) bool { return t.IsRecvField("lc") }
	isHandler := func(t *Term) bool { return t.IsRecvField("handler") }
	lc, _ := c.P.constLit("", "EventTypeCreate")
	lu, _ := c.P.constLit("", "EventTypeUpdate")
	ld, _ := c.P.constLit("", "EventTypeDelete")
	armOf := func(pa *Path) (string, *Effect) {
		for _, e := range pa.Effects {
			if e.Kind == "select" && e.Blocking {
				if e.Arm < 0 {
					return "?", e
				}
				ch := e.Sel[e.Arm].Chan
				if ch.K == "invoke" && isSub(ch.A[0]) {
					switch ch.S {
					case "Done":
						return "subDone", e
					case "Ready":
						return "subReady", e
					case "Events":
						return "event", e
					}
				}
				return "?" + ch.Key(), e
			}
		}
		return "none", nil
	}
	isListCall := func(t *Term) bool {
		if t == nil || t.K != "invoke" || t.S != "List" {
			return false
		}
		r, _, ok := isInvoke(t.A[0], "Cache")
		return ok && isSub(r)
	}
	outcome := func(pa *Path) ([]string, string) {
		arm, sel := armOf(pa)
		if strings.HasPrefix(arm, "?") {
			return nil, "unknown select arm " + arm
		}
		rv := selRecvTerm(sel)
		var out []string
		nsel := 0
		for _, e := range pa.Effects {
			switch e.Kind {
			case "select":
				nsel++
				if nsel > 1 || !e.Blocking {
					return nil, "more than one select in a monitor step"
				}
				// the step's select must offer exactly {sub.Done, X}
				if len(e.Sel) != 2 {
					return nil, fmt.Sprintf("select with %d arms (want sub.Done plus one input)", len(e.Sel))
				}
				hasDone := false
				for _, s := range e.Sel {
					if s.Chan.K == "invoke" && s.Chan.S == "Done" && isSub(s.Chan.A[0]) {
						hasDone = true
					}
				}
				if !hasDone {
					return nil, "select without the sub.Done() arm"
				}
			case "invoke":
				switch {
				case e.IsPure():
				case isSub(e.Recv) && (e.Method == "Ready" || e.Method == "Events" || e.Method == "Cache"):
				case e.Method == "List" && isListCall(e.Res):
					out = append(out, "objs:=sub.Cache().List()")
				case isHandler(e.Recv):
					arg := "OTHER"
					if len(e.Args) == 1 {
						a := e.Args[0]
						switch {
						case a.K == "extract" && a.S == "0" && isListCall(a.A[0]):
							arg = "objs"
						case a.K == "invoke" && a.S == "Resource" && sameTerm(a.A[0], rv):
							arg = "ev.Resource"
						}
					}
					out = append(out, e.Method+"("+arg+")")
				case e.Method == "ShutdownInitiated" && isLC(e.Recv):
					a := e.Args[0]
					switch {
					case a.IsNil():
						out = append(out, "initiate(nil)")
					case termContains(a, func(x *Term) bool { return x.K == "extract" && x.S == "1" && isListCall(x.A[0]) }):
						out = append(out, "initiate(list-err)")
					default:
						out = append(out, "initiate(OTHER)")
					}
				case e.Method == "ShutdownCompleted" && isLC(e.Recv):
				case e.Method == "Close" && isSub(e.Recv):
					out = append(out, "sub.Close")
				default:
					return nil, "unexpected call: " + e.String()
				}
			case "recv":
				if r, _, ok := isInvoke(e.Addr, "Done"); ok && isSub(r) {
					out = append(out, "wait(sub.Done)")
				} else {
					return nil, "unexpected receive: " + e.String()
				}
			case "go":
				return nil, "goroutine started in the monitor loop (callbacks must run serially on the monitor goroutine): " + e.String()
			case "defer":
				if e.Method == "ShutdownCompleted" {
					continue
				}
				return nil, "unexpected defer: " + e.String()
			case "rundefers":
			case "call", "dyncall":
				if e.IsPure() {
					continue
				}
				return nil, "unexpected call: " + e.String()
			default:
				return nil, "unexpected effect: " + e.String()
			}
		}
		switch pa.End.Kind {
		case "stop":
			out = append(out, "continue")
		case "return":
			out = append(out, "exit")
		default:
			return nil, "path ends in " + pa.End.Kind
		}
		return out, ""
	}
	typeExtra := func(pa *Path, rv *Term) []string {
		allowed := map[string]bool{"create": true, "update": true, "delete": true, "other": true}
		for _, l := range pa.Lits {
			for name, lit := range map[string]string{"create": lc, "update": lu, "delete": ld} {
				if x, ok := eqConst(l.T, lit); ok && x.K == "invoke" && x.S == "Type" && sameTerm(x.A[0], rv) {
					if l.Val {
						for k := range allowed {
							if k != name {
								delete(allowed, k)
							}
						}
					} else {
						delete(allowed, name)
					}
				}
			}
		}
		var vs []string
		for k := range allowed {
			vs = append(vs, k)
		}
		return vs
	}
	// ---- prelude ----
	pre := (&Walker{P: c.P}).PreludeRegion(fn, loop)
	tsPre := &tableSpec{
		Rule:   rule,
		Region: "monitor.run before the event loop",
		Atoms:  []atomSpec{{"arm", []string{"none", "subDone", "subReady", "event"}}, {"errList", boolDom}},
		Extra: func(pa *Path) map[string][]string {
			a, _ := armOf(pa)
			return map[string][]string{"arm": {a}}
		},
		Lit: func(pa *Path, l Lit) litClass {
			if x, ok := isNilTest(l.T); ok && x.K == "extract" && x.S == "1" && isListCall(x.A[0]) {
				return litClass{Atom: "errList", IfTrue: []string{"F"}, OK: true}
			}
			return litClass{}
		},
		Outcome: outcome,
		Expected: func(v map[string]string) [][]string {
			switch v["arm"] {
			case "subDone":
				return [][]string{{"initiate(nil)", "exit"}}
			case "subReady":
				if v["errList"] == "T" {
					return [][]string{{"objs:=sub.Cache().List()", "initiate(list-err)", "sub.Close", "wait(sub.Done)", "exit"}}
				}
				return [][]string{{"objs:=sub.Cache().List()", "OnInitialize(objs)", "continue"}}
			case "none":
				return [][]string{{"MUST-WAIT-FOR-READY-BEFORE-THE-EVENT-LOOP"}}
			case "event":
				return [][]string{{"NO-EVENT-BEFORE-INITIALIZE"}}
			}
			return nil
		},
	}
	c.runTable(tsPre, "monitor.run.prelude", pos, pre)
	// ---- loop ----
	paths := (&Walker{P: c.P, Inline: autoInline(c.P, fn, 12)}).IterRegion(fn, loop)
	ts := &tableSpec{
		Rule:   rule,
		Region: "one iteration of the monitor event loop",
		Atoms:  []atomSpec{{"arm", []string{"subDone", "subReady", "event"}}, {"ok", boolDom}, {"type", []string{"create", "update", "delete", "other"}}},
		Extra: func(pa *Path) map[string][]string {
			a, sel := armOf(pa)
			return map[string][]string{"arm": {a}, "type": typeExtra(pa, selRecvTerm(sel))}
		},
		Lit: func(pa *Path, l Lit) litClass {
			if l.T.K == "selok" {
				return litClass{Atom: "ok", IfTrue: []string{"T"}, OK: true}
			}
			for _, lit := range []string{lc, lu, ld} {
				if x, ok := eqConst(l.T, lit); ok && x.K == "invoke" && x.S == "Type" {
					return litClass{Ignore: true, OK: true}
				}
			}
			return litClass{}
		},
		Outcome: outcome,
		Expected: func(v map[string]string) [][]string {
			switch v["arm"] {
			case "subDone":
				return [][]string{{"initiate(nil)", "exit"}}
			case "subReady":
				return [][]string{{"READY-ARM-INSIDE-THE-EVENT-LOOP"}}
			case "event":
				if v["ok"] == "F" {
					return [][]string{{"initiate(nil)", "wait(sub.Done)", "exit"}, {"initiate(nil)", "exit"}}
				}
				switch v["type"] {
				case "create":
					return [][]string{{"OnCreate(ev.Resource)", "continue"}}
				case "update":
					return [][]string{{"OnUpdate(ev.Resource)", "continue"}}
				case "delete":
					return [][]string{{"OnDelete(ev.Resource)", "continue"}}
				}
				return [][]string{{"continue"}}
			}
			return nil
		},
	}
	c.runTable(ts, "monitor.run.loop", pos, paths)
	c.notes = append(c.notes, fmt.Sprintf("monitor.run: %d prelude paths, %d iteration paths", len(pre), len(paths)))
}

// checkHandlerCallers: Handler.On* are invoked only from monitor.run (T-WHO), and
// the builder-made handler forwards each callback to its own slot.
func checkHandlerCallers(c *Ctx) {
	rule := "T-WHO(Handler)"
	methods := map[string]bool{"OnInitialize": true, "OnCreate": true, "OnUpdate": true, "OnDelete": true}
	n := 0
	for _, f := range c.P.SrcFuncs("") {
		for _, b := range f.Blocks {
			for _, in := range b.Instrs {
				var cc *ssa.CallCommon
				kind := "call"
				switch x := in.(type) {
				case *ssa.Call:
					cc = &x.Call
				case *ssa.Go:
					cc, kind = &x.Call, "go"
				case *ssa.Defer:
					cc, kind = &x.Call, "defer"
				}
				if cc == nil || !cc.IsInvoke() || !methods[cc.Method.Name()] {
					continue
				}
				if typeNameOf(cc.Value.Type()) != "Handler" {
					continue
				}
				n++
				c.sites++
				c.check(c.P.ownedBy(f, "", "monitor.run") && kind == "call", rule, "Handler."+cc.Method.Name()+"/invoked-in/"+fnName(f)+"["+kind+"]", c.P.instrPos(in), "callback on the monitor goroutine",
					"user callback "+cc.Method.Name()+" is invoked ("+kind+") in "+fnName(f)+": callbacks must only run, serially, on the monitor's own goroutine")
			}
		}
	}
	c.check(n >= 4, rule, "Handler/call-sites", "-", fmt.Sprintf("%d call sites", n), "fewer than the four callback call sites found")
	// handler (builder product): each method calls its own slot with its argument, if non-nil
	for _, m := range [][2]string{{"OnInitialize", "onInitialize"}, {"OnCreate", "onCreate"}, {"OnUpdate", "onUpdate"}, {"OnDelete", "onDelete"}} {
		fn := c.mustFunc("", "handler."+m[0])
		if fn == nil {
			continue
		}
		paths := (&Walker{P: c.P}).FuncRegion(fn)
		c.paths += len(paths)
		ok := true
		calls := 0
		for _, pa := range paths {
			for _, e := range pa.Effects {
				if e.Kind == "dyncall" {
					calls++
					if !(e.Recv.IsField(m[1]) && len(e.Args) == 1 && e.Args[0].K == "param") {
						ok = false
					}
					// called only when the slot is set
					guarded := false
					for _, l := range pa.Lits {
						if x, isNil := isNilTest(l.T); isNil && x.IsField(m[1]) && !l.Val {
							guarded = true
						}
					}
					if !guarded {
						ok = false
					}
				} else if !e.IsPure() && e.Kind != "rundefers" {
					ok = false
				}
			}
		}
		c.check(ok && calls == 1, "T-SHAPE(handler)", "handler."+m[0]+"/calls-slot-"+m[1], c.P.fnPos(fn), "", "handler."+m[0]+" does not forward to the "+m[1]+" slot exactly once with its argument")
		// builder setter stores into the same slot
		if sf := c.mustFunc("", "handlerBuilder."+m[0]); sf != nil {
			ps := (&Walker{P: c.P}).FuncRegion(sf)
			c.paths += len(ps)
			okk := false
			for _, pa := range ps {
				for _, e := range pa.Effects {
					if e.Kind == "store" && e.Addr.K == "faddr" && e.Addr.S == m[1] && e.Val.K == "param" {
						okk = true
					}
				}
			}
			c.check(okk, "T-SHAPE(handler)", "handlerBuilder."+m[0]+"/sets-slot-"+m[1], c.P.fnPos(sf), "", "handlerBuilder."+m[0]+" does not store its argument in "+m[1])
		}
	}
}

// checkHandlerBuilderCopy: Create() hands out a value copy of the builder's
// state, so re-using the builder afterwards cannot rewrite a handler that a
// monitor already runs with.
func checkHandlerBuilderCopy(c *Ctx, rel string) {
	fn := c.mustFunc(rel, "handlerBuilder.Create")
	if fn == nil {
		return
	}
	ok := false
	for _, b := range fn.Blocks {
		if r, isRet := b.Instrs[len(b.Instrs)-1].(*ssa.Return); isRet && len(r.Results) == 1 {
			if mi, isMI := r.Results[0].(*ssa.MakeInterface); isMI {
				if _, isPtr := mi.X.Type().Underlying().(*types.Pointer); !isPtr {
					ok = true
				}
			}
		}
	}
	label := "handlerBuilder.Create"
	if rel != "" {
		label = rel + ":" + label
	}
	c.check(ok, "T-SHAPE(handler)", label+"/returns-a-copy", c.P.fnPos(fn), "", label+" returns a handler that aliases the builder (pointer conversion) instead of a copy: later use of the builder changes the callbacks of a running monitor, from another goroutine")
}

// checkMonitorAPI: NewMonitor subscribes to the given publisher, starts run
// once; Done is the monitor's own lifecycle; Close closes its subscription.
func checkMonitorAPI(c *Ctx) {
	rule := "T-FLOW(monitor-api)"
	if fn := c.mustFunc("", "monitor.Done"); fn != nil {
		paths := (&Walker{P: c.P}).FuncRegion(fn)
		c.paths += len(paths)
		ok := len(paths) == 1 && len(paths[0].End.Results) == 1
		if ok {
			r, _, isInv := isInvoke(paths[0].End.Results[0], "Done")
			ok = isInv && r.IsRecvField("lc")
		}
		c.check(ok, rule, "monitor.Done/returns-own-lifecycle-Done", c.P.fnPos(fn), "", "monitor.Done() is not the monitor's own lifecycle Done(): it would close while a callback is still running or pending (callbacks after Done)")
	}
	if fn := c.mustFunc("", "monitor.Close"); fn != nil {
		paths := (&Walker{P: c.P}).FuncRegion(fn)
		c.paths += len(paths)
		ok := len(paths) == 1
		n := 0
		if ok {
			for _, e := range paths[0].Effects {
				if e.Kind == "invoke" && e.Method == "Close" && e.Recv.IsRecvField("sub") {
					n++
				} else if !e.IsPure() && e.Kind != "rundefers" {
					ok = false
				}
			}
		}
		c.check(ok && n == 1, rule, "monitor.Close/closes-own-subscription", c.P.fnPos(fn), "", "monitor.Close does not just close the monitor's own subscription")
	}
	if fn := c.mustFunc("", "NewMonitor"); fn != nil {
		paths := (&Walker{P: c.P}).FuncRegion(fn)
		c.paths += len(paths)
		ok := len(paths) == 2
		for _, pa := range paths {
			var sub *Term
			for _, e := range pa.Effects {
				if e.Kind == "invoke" && e.Method == "Subscribe" && e.Recv.K == "param" {
					sub = e.Res
				}
			}
			if sub == nil {
				ok = false
				continue
			}
			errNil, known := false, false
			for _, l := range pa.Lits {
				if x, okk := isNilTest(l.T); okk && x.K == "extract" && x.S == "1" && sameTerm(x.A[0], sub) {
					errNil, known = l.Val, true
				}
			}
			if !known {
				ok = false
				continue
			}
			gos := 0
			var subField, handlerField *Term
			for _, e := range pa.Effects {
				if e.Kind == "go" {
					gos++
					if e.Fn == nil || fnName(e.Fn) != "monitor.run" {
						ok = false
					}
				}
				if e.Kind == "store" && e.Addr.K == "faddr" && e.Addr.S == "sub" {
					subField = e.Val
				}
				if e.Kind == "store" && e.Addr.K == "faddr" && e.Addr.S == "handler" {
					handlerField = e.Val
				}
			}
			if errNil {
				if gos != 1 || subField == nil || !(subField.K == "extract" && subField.S == "0" && sameTerm(subField.A[0], sub)) || handlerField == nil || handlerField.K != "param" {
					ok = false
				}
			} else if gos != 0 {
				ok = false
			}
		}
		c.check(ok, rule, "NewMonitor/subscribe-then-run-once", c.P.fnPos(fn), "", "NewMonitor does not (subscribe to the publisher; on success build the monitor over that subscription and the given handler; start run exactly once)")
	}
}

// checkTypedMonitor: each of the four untyped slots of a typed NewMonitor
// adapts its argument and calls exactly the corresponding typed callback once.
func checkTypedMonitor(c *Ctx, rel string) {
	rule := "T-SHAPE(typed-monitor)"
	want := map[string]string{}
	fn := c.mustFunc(rel, "NewMonitor")
	if fn == nil {
		return
	}
	// find which closure is registered in which slot: phandler builder chain in NewMonitor
	w := &Walker{P: c.P}
	paths := w.FuncRegion(fn)
	c.paths += len(paths)
	for _, pa := range paths {
		for _, e := range pa.Effects {
			if e.Kind == "invoke" && strings.HasPrefix(e.Method, "On") && len(e.Args) == 1 && e.Args[0].K == "closure" {
				want[fnName(e.Args[0].Fn)] = e.Method
			}
		}
	}
	if len(want) != 4 {
		c.fail(rule, rel+":NewMonitor/four-slots", c.P.fnPos(fn), fmt.Sprintf("expected 4 callback closures registered on the untyped handler builder, found %d", len(want)))
		return
	}
	for name, slot := range want {
		_, short := splitFn(name)
		cl := c.P.Func(rel, short)
		if cl == nil {
			c.undecided(rule, name, "-", "closure not found")
			continue
		}
		c.useFn(cl)
		ps := (&Walker{P: c.P}).FuncRegion(cl)
		c.paths += len(ps)
		ok := len(ps) >= 1
		for _, pa := range ps {
			n := 0
			for _, e := range pa.Effects {
				if e.Kind == "invoke" && strings.HasPrefix(e.Method, "On") {
					n++
					if e.Method != slot {
						ok = false
					}
					// receiver is the captured typed handler
					if !(e.Recv.K == "load" || e.Recv.K == "freevar") {
						ok = false
					}
					// what it is handed is the adapted object (or list) that came with this very
					// callback — not something looked up elsewhere at a later time
					if len(e.Args) != 1 {
						ok = false
					} else {
						a := e.Args[0]
						if a.K == "extract" && len(a.A) == 1 {
							a = a.A[0]
						}
						fromParam := a.K == "call" && (strings.HasSuffix(a.S, "adaptObject") || strings.HasSuffix(a.S, "adaptList")) && len(a.A) >= 1 && a.A[len(a.A)-1].K == "param"
						if !fromParam {
							ok = false
						}
					}
					continue
				}
				if e.Kind == "go" {
					ok = false
				}
				if (e.Kind == "invoke" || e.Kind == "call" || e.Kind == "dyncall") && !e.IsPure() {
					if e.Kind == "call" && e.Fn != nil && (strings.HasSuffix(fnName(e.Fn), "adaptObject") || strings.HasSuffix(fnName(e.Fn), "adaptList")) {
						continue
					}
					ok = false
				}
			}
			if n != 1 {
				ok = false
			}
		}
		c.check(ok, rule, name+"/"+slot+"→typed."+slot+"-once", c.P.fnPos(cl), "", "typed monitor slot "+slot+" in "+rel+" does not call exactly the typed handler's "+slot+" once")
	}
}

#!/usr/bin/env python3
"""Mutation-adequacy audit of the checker itself (informational; never a registered check).

For every first-order mutant produced by bin/kmutate (source overlays, nothing is copied or written
under /repo): (1) run all 20 kcheck properties on the overlaid tree; (2) run the affected package's
existing tests with `go test -overlay`.  Classify: invalid (does not type-check), killed-by-kcheck,
killed-by-tests, survived.  The interesting class is "passes the existing tests but breaks
something": mutants the suite misses and kcheck reports, and the survivors of both (to triage:
equivalent mutant or a gap in the rules).

usage: mutation_audit.py [--dir /tmp/kmutants] [--jobs 8] [--notests] [--files substr]
"""
import argparse, json, os, re, subprocess, sys, collections
from concurrent.futures import ThreadPoolExecutor

ENV = dict(os.environ, GOFLAGS="-mod=mod", GOPROXY="off", GOSUMDB="off", GOTOOLCHAIN="local", GOWORK="off")


def pkg_of(rel):
    d = os.path.dirname(rel)
    return "./" + d if d else "."


SURV_ONLY = False


def run_one(m, notests):
    orig = "/repo/" + m["file"]
    r = subprocess.run(f"/verif/bin/kcheck -repo /repo -overlay {orig}={m['path']} -prop all -evidence /tmp/kmut_ev/{m['id']} -known /verif/known_findings.json",
                       shell=True, env=ENV, capture_output=True, text=True)
    out = r.stdout
    res = {"id": m["id"], "file": m["file"], "line": m["line"], "func": m["func"], "op": m["op"], "desc": m["desc"]}
    if "LOAD/repository" in out or "type errors" in out:
        res["class"] = "invalid"
        return res
    fired = sorted(set(re.findall(r"^VIOLATION property=(C\d+)", out, re.M)))
    res["kcheck"] = fired
    first = ""
    lines = out.splitlines()
    for i, l in enumerate(lines):
        if l.startswith("VIOLATION") and i + 1 < len(lines):
            first = lines[i + 1].strip()[:220]
            break
    res["first"] = first
    if not notests and not (SURV_ONLY and fired):
        ov = f"/tmp/kmut_ev/{m['id']}.overlay.json"
        os.makedirs("/tmp/kmut_ev", exist_ok=True)
        json.dump({"Replace": {orig: m["path"]}}, open(ov, "w"))
        pk = pkg_of(m["file"])
        fails = 0
        for attempt in range(2):
            t = subprocess.run(f"go test -overlay {ov} -vet=off -count=1 -timeout 60s {pk}", shell=True, cwd="/repo", env=ENV, capture_output=True, text=True)
            if t.returncode == 0:
                break
            fails += 1
        res["tests"] = "fail" if fails == 2 else "pass"
        if "no test files" in t.stdout:
            res["tests"] = "none"
    res["class"] = "killed" if fired else "survived"
    return res


def main():
    ap = argparse.ArgumentParser()
    ap.add_argument("--dir", default="/tmp/kmutants")
    ap.add_argument("--jobs", type=int, default=8)
    ap.add_argument("--notests", action="store_true")
    ap.add_argument("--files", default="")
    ap.add_argument("--out", default="/tmp/kmut_result.json")
    ap.add_argument("--tests-for-survivors", action="store_true", help="run the existing tests only for mutants no check reports")
    a = ap.parse_args()
    global SURV_ONLY
    SURV_ONLY = a.tests_for_survivors
    ms = json.load(open(a.dir + "/index.json"))
    if a.files:
        ms = [m for m in ms if a.files in m["file"]]
    os.makedirs("/tmp/kmut_ev", exist_ok=True)
    with ThreadPoolExecutor(max_workers=a.jobs) as ex:
        results = list(ex.map(lambda m: run_one(m, a.notests), ms))
    json.dump(results, open(a.out, "w"), indent=1)
    c = collections.Counter(r["class"] for r in results)
    print("mutants:", len(results), dict(c))
    valid = [r for r in results if r["class"] != "invalid"]
    if not a.notests:
        tp = [r for r in valid if r.get("tests") in ("pass", "none") or "tests" not in r]
        print("valid:", len(valid), " pass-or-no existing tests:", len(tp), " of those killed by kcheck:", sum(1 for r in tp if r["class"] == "killed"),
              " survive both:", sum(1 for r in tp if r["class"] == "survived"))
    byfile = collections.defaultdict(lambda: [0, 0])
    for r in valid:
        byfile[r["file"]][0] += 1
        byfile[r["file"]][1] += r["class"] == "killed"
    for f, (n, k) in sorted(byfile.items()):
        print(f"  {f:32s} valid {n:3d} killed {k:3d} ({100*k//max(n,1)}%)")


if __name__ == "__main__":
    main()

package main

// Small matching helpers over Terms / Effects shared by the rules.

import (
	"fmt"
	"go/constant"
	"go/token"
	"go/types"
	"sort"
	"strings"

	"golang.org/x/tools/go/ssa"
)

// isInvoke: t is a call of interface method `method`; returns receiver, args.
func isInvoke(t *Term, method string) (*Term, []*Term, bool) {
	if t != nil && t.K == "invoke" && t.S == method {
		return t.A[0], t.A[1:], true
	}
	return nil, nil, false
}

// isCall: t is a static call of the function with short name `name`.
func isCall(t *Term, name string) ([]*Term, bool) {
	if t != nil && t.K == "call" && t.S == name {
		return t.A, true
	}
	return nil, false
}

func sameTerm(a, b *Term) bool { return a != nil && b != nil && a.Key() == b.Key() }

// constStringTerm returns the canonical literal of a package-level string constant.
func (p *Prog) constLit(rel, name string) (string, bool) {
	sp := p.Pkg(rel)
	if sp == nil {
		return "", false
	}
	c, ok := sp.Pkg.Scope().Lookup(name).(*types.Const)
	if !ok {
		return "", false
	}
	if c.Val().Kind() == constant.String {
		return fmt.Sprintf("%q", constant.StringVal(c.Val())), true
	}
	return c.Val().ExactString(), true
}

// eqConst: t is (x == lit) (in either operand order) ; returns x.
func eqConst(t *Term, lit string) (*Term, bool) {
	if t == nil || t.K != "binop" || t.S != "==" {
		return nil, false
	}
	if t.A[0].K == "const" && t.A[0].S == lit {
		return t.A[1], true
	}
	if t.A[1].K == "const" && t.A[1].S == lit {
		return t.A[0], true
	}
	return nil, false
}

// isNilTest: t is (x == nil); returns x.
func isNilTest(t *Term) (*Term, bool) { return eqConst(t, "nil") }

// relBetween returns the order mask recorded on path pa between a and b
// (mask of "a ? b"); full mask if unconstrained.
func relBetween(pa *Path, a, b *Term) int {
	ak, bk := a.Key(), b.Key()
	flip := false
	if ak > bk {
		ak, bk = bk, ak
		flip = true
	}
	m, ok := pa.Rel[ak+" ? "+bk]
	if !ok {
		return relLT | relEQ | relGT
	}
	if flip {
		m = mirrorMask(m)
	}
	return m
}

// litVal finds the truth value of the literal with canonical key on path.
func litVal(pa *Path, key string) (bool, bool) {
	for _, l := range pa.Lits {
		if l.T.Key() == key {
			return l.Val, true
		}
	}
	return false, false
}

// effect filters
func (e *Effect) IsPure() bool {
	switch e.Kind {
	case "call", "invoke":
		return e.Res != nil && e.Res.ID == ""
	}
	return false
}

// chosenSel returns the select effects of a path in order.
func selectsOf(pa *Path) []*Effect {
	var out []*Effect
	for _, e := range pa.Effects {
		if e.Kind == "select" {
			out = append(out, e)
		}
	}
	return out
}

// armLabel renders the chosen arm of a select effect, canonical.
func armLabel(e *Effect) string {
	if e.Arm < 0 {
		return "default"
	}
	s := e.Sel[e.Arm]
	if s.Dir == types.SendOnly {
		return "send " + s.Chan.Key()
	}
	return "recv " + s.Chan.Key()
}

// ---------- SSA helpers ----------

// autoInline: same-repository static callees without loops, channel ops,
// goroutines or defers, at most maxBlocks blocks.  This is what makes the
// tables tolerant to "extract a helper" refactorings.
func autoInline(p *Prog, root *ssa.Function, maxBlocks int) map[*ssa.Function]bool {
	out := map[*ssa.Function]bool{}
	var visit func(f *ssa.Function, depth int)
	visit = func(f *ssa.Function, depth int) {
		if depth > 2 {
			return
		}
		for _, b := range f.Blocks {
			for _, in := range b.Instrs {
				call, ok := in.(*ssa.Call)
				if !ok {
					continue
				}
				g := call.Call.StaticCallee()
				if g == nil || g.Blocks == nil || out[g] || g == root || !inRepo(g) {
					continue
				}
				if g.Pkg != root.Pkg {
					continue
				}
				if _, pure := pureStatic[fnName(g)]; pure {
					continue
				}
				if !simpleHelper(g, maxBlocks) {
					continue
				}
				out[g] = true
				visit(g, depth+1)
			}
		}
	}
	visit(root, 0)
	return out
}

// neverInline: functions the rules recognise by name as one abstract step
// (cache handlers, distributors, constructors, adapters); inlining them would
// dissolve the very effect a table expects to see.
var neverInline = map[string]bool{
	"_cache.doSync": true, "_cache.doUpdate": true, "_cache.doRefilter": true, "_cache.doList": true, "_cache.Get": true,
	"controller.distributeEvents": true, "filterSubscription.distributeEvents": true, "publisher.distributeEvent": true,
	"publisher.createSubscription": true, "publisher.Subscribe": true, "publisher.SubscribeWithFilter": true, "publisher.SubscribeForFilter": true,
	"_lister.list": true, "_lister.executeList": true, "_ticker.nextPeriod": true, "_watchSession.connect": true,
	"listResourceVersion": true, "extractList": true, "InvolvedFilter": true, "Selector": true,
	"listerBuilder.Client": true, "watcherBuilder.Client": true,
	"compareFilterList": true, "_adapter.adaptObject": true, "_adapter.adaptList": true, "wrapEvent": true, "buildServicesFilter": true,
}

// anchorCtors: the constructors and factory functions of the pinned tree, which the rules name
// as one step ("call newCache(…)").  A constructor-like helper that is not in this table (a
// `newXStruct` split out of a constructor) is looked through like any other simple helper.
var anchorCtors = map[string]bool{
	"BuildController": true, "BuildHandler": true, "BuildUnitaryHandler": true, "New": true, "NewBuilder": true, "NewClient": true,
	"NewController": true, "NewEvent": true, "NewListClient": true, "NewMonitor": true, "NewWatchClient": true,
	"makeResourceListFn": true, "makeResourceWatchFn": true, "newCache": true, "newController": true, "newFilterController": true,
	"newFilterPublisher": true, "newFilterSubscription": true, "newLister": true, "newListerBuilder": true, "newPublisher": true,
	"newSubscription": true, "newTicker": true, "newWatchSession": true, "newWatcher": true, "newWatcherBuilder": true,
}

func neverInlined(g *ssa.Function) bool {
	if anchorCtors[g.Name()] {
		return true
	}
	full := fnName(g)
	if i := strings.LastIndex(full, ":"); i >= 0 {
		full = full[i+1:]
	}
	return neverInline[full]
}

func simpleHelper(g *ssa.Function, maxBlocks int) bool {
	if len(g.Blocks) > maxBlocks || neverInlined(g) {
		return false
	}
	if g.Object() != nil && g.Object().Exported() && (hasGo(g) || g.Signature.Recv() == nil) {
		return false // exported functions and goroutine-starting constructors are API anchors, not helpers
	}
	for _, b := range g.Blocks {
		for _, s := range b.Succs {
			if s.Dominates(b) {
				return false // loop
			}
		}
		for _, in := range b.Instrs {
			switch in.(type) {
			case *ssa.Defer:
				return false
			}
			_ = in
		}
	}
	return true
}

// fieldAccesses lists every instruction in repository functions that takes
// the address of / reads field `field` of named struct type `typeName`
// declared in package rel.
type fieldAccess struct {
	Fn *ssa.Function
	In ssa.Instruction
}

func (p *Prog) fieldAccesses(rel, typeName, field string) []fieldAccess {
	var out []fieldAccess
	match := func(t types.Type, idx int) bool {
		if pt, ok := t.Underlying().(*types.Pointer); ok {
			t = pt.Elem()
		}
		n, ok := t.(*types.Named)
		if !ok || n.Obj().Name() != typeName || n.Obj().Pkg() == nil {
			return false
		}
		want := modPath
		if rel != "" {
			want += "/" + rel
		}
		if n.Obj().Pkg().Path() != want {
			return false
		}
		st, ok := n.Underlying().(*types.Struct)
		return ok && idx < st.NumFields() && st.Field(idx).Name() == field
	}
	for _, r := range p.repoRels() {
		for _, f := range p.SrcFuncs(r) {
			for _, b := range f.Blocks {
				for _, in := range b.Instrs {
					switch x := in.(type) {
					case *ssa.FieldAddr:
						if match(x.X.Type(), x.Field) {
							out = append(out, fieldAccess{f, in})
						}
					case *ssa.Field:
						if match(x.X.Type(), x.Field) {
							out = append(out, fieldAccess{f, in})
						}
					}
				}
			}
		}
	}
	return out
}

// callersOf lists repository call/go/defer sites whose static callee is f,
// plus uses of f as a value (method values, closures passed around).
type callSite struct {
	Fn   *ssa.Function
	In   ssa.Instruction
	Kind string // call | go | defer | value
}

func (p *Prog) callersOf(target *ssa.Function) []callSite {
	if p.callerIdx == nil {
		p.buildCallerIndex()
	}
	return p.callerIdx[target]
}

// buildCallerIndex scans the repository once and records, per function, every call/go/defer
// site and every use as a value.
func (p *Prog) buildCallerIndex() {
	p.callerIdx = map[*ssa.Function][]callSite{}
	for _, r := range p.repoRels() {
		for _, f := range p.SrcFuncs(r) {
			for _, b := range f.Blocks {
				for _, in := range b.Instrs {
					var cc *ssa.CallCommon
					kind := ""
					switch x := in.(type) {
					case *ssa.Call:
						cc, kind = &x.Call, "call"
					case *ssa.Go:
						cc, kind = &x.Call, "go"
					case *ssa.Defer:
						cc, kind = &x.Call, "defer"
					}
					if cc != nil {
						if g := cc.StaticCallee(); g != nil {
							p.callerIdx[g] = append(p.callerIdx[g], callSite{f, in, kind})
						}
					}
					for _, op := range in.Operands(nil) {
						if *op == nil {
							continue
						}
						if fn, ok := (*op).(*ssa.Function); ok {
							if cc != nil && cc.Value == fn {
								continue
							}
							p.callerIdx[fn] = append(p.callerIdx[fn], callSite{f, in, "value"})
						}
					}
				}
			}
		}
	}
}

func (p *Prog) callersOfSlow(target *ssa.Function) []callSite {
	var out []callSite
	for _, r := range p.repoRels() {
		for _, f := range p.SrcFuncs(r) {
			for _, b := range f.Blocks {
				for _, in := range b.Instrs {
					var cc *ssa.CallCommon
					kind := ""
					switch x := in.(type) {
					case *ssa.Call:
						cc, kind = &x.Call, "call"
					case *ssa.Go:
						cc, kind = &x.Call, "go"
					case *ssa.Defer:
						cc, kind = &x.Call, "defer"
					}
					if cc != nil && cc.StaticCallee() == target {
						out = append(out, callSite{f, in, kind})
					}
					// value uses
					for _, op := range in.Operands(nil) {
						if *op == nil {
							continue
						}
						if fn, ok := (*op).(*ssa.Function); ok && fn == target {
							if cc != nil && cc.Value == fn {
								continue
							}
							out = append(out, callSite{f, in, "value"})
						}
					}
				}
			}
		}
	}
	return out
}

func sortedKeys[V any](m map[string]V) []string {
	var ks []string
	for k := range m {
		ks = append(ks, k)
	}
	sort.Strings(ks)
	return ks
}

func joinSorted(xs []string) string {
	ys := append([]string(nil), xs...)
	sort.Strings(ys)
	return strings.Join(ys, "; ")
}

// typeNameOf returns the bare named-type name behind pointers.
func typeNameOf(t types.Type) string {
	for {
		if p, ok := t.(*types.Pointer); ok {
			t = p.Elem()
			continue
		}
		break
	}
	if n, ok := t.(*types.Named); ok {
		return n.Obj().Name()
	}
	return t.String()
}

// selRecvTerm returns the term of the value received by the chosen arm of a
// select effect.  go/ssa's Select tuple has one r_i per *receive* state, so
// the slot is the ordinal of the arm among the receive states.
func selRecvTerm(e *Effect) *Term {
	if e == nil || e.Arm < 0 || e.Arm >= len(e.Sel) || e.Sel[e.Arm].Dir == types.SendOnly {
		return nil
	}
	ord := 0
	for i := 0; i < e.Arm; i++ {
		if e.Sel[i].Dir != types.SendOnly {
			ord++
		}
	}
	return &Term{K: "selrecv", S: fmt.Sprint(ord), A: []*Term{e.Res}}
}

// phiRoles names the phis of a loop header by role.  Each role has a
// predicate; a role is assigned only when exactly one phi satisfies it, so a
// renamed local keeps its role and an ambiguous shape keeps source names
// (which then fail to match the reference: undecided rather than wrong).
func phiRoles(header *ssa.BasicBlock, roles map[string]func(*ssa.Phi) bool) map[*ssa.Phi]string {
	out := map[*ssa.Phi]string{}
	for role, pred := range roles {
		var hit []*ssa.Phi
		for _, in := range header.Instrs {
			phi, ok := in.(*ssa.Phi)
			if !ok {
				break
			}
			if pred(phi) {
				hit = append(hit, phi)
			}
		}
		if len(hit) == 1 {
			out[hit[0]] = role
		}
	}
	return out
}

func phiTypeIs(s string) func(*ssa.Phi) bool {
	return func(p *ssa.Phi) bool { return typeStr(p.Type()) == s }
}

// ownerClosure returns the set of functions that run on the goroutine of
// entry `run` only: run itself plus every same-package function all of whose
// uses are plain calls from functions already in the set (so that an
// "extract helper" refactoring keeps code inside its owner).
func (p *Prog) ownerClosure(run *ssa.Function) map[*ssa.Function]bool {
	if m, ok := p.ownerMemo[run]; ok {
		return m
	}
	set := map[*ssa.Function]bool{run: true}
	if p.ownerMemo == nil {
		p.ownerMemo = map[*ssa.Function]map[*ssa.Function]bool{}
	}
	p.ownerMemo[run] = set
	if run == nil || run.Pkg == nil {
		return set
	}
	rel := strings.TrimPrefix(strings.TrimPrefix(run.Pkg.Pkg.Path(), modPath), "/")
	cands := p.SrcFuncs(rel)
	for changed := true; changed; {
		changed = false
		for _, f := range cands {
			if set[f] {
				continue
			}
			if par := f.Parent(); par != nil {
				// a closure that its (owned) parent only ever calls or defers itself runs on the same goroutine
				if !set[par] {
					continue
				}
				ok, n := true, 0
				for _, sf := range closuresOf(par) {
					if sf.Fn != f {
						continue
					}
					n++
					for _, r := range *sf.Mk.Referrers() {
						switch x := r.(type) {
						case *ssa.Call:
							if x.Call.Value != ssa.Value(sf.Mk) {
								ok = false
							}
						case *ssa.Defer:
							if x.Call.Value != ssa.Value(sf.Mk) {
								ok = false
							}
						case *ssa.DebugRef:
						default:
							ok = false
						}
					}
				}
				if ok && n > 0 {
					set[f] = true
					changed = true
				}
				continue
			}
			cs := p.callersOf(f)
			if len(cs) == 0 {
				continue
			}
			ok := true
			for _, s := range cs {
				if s.Kind != "call" || !set[s.Fn] {
					ok = false
				}
			}
			if ok {
				set[f] = true
				changed = true
			}
		}
	}
	return set
}

// ownedBy reports whether f is run or one of run's private helpers.
func (p *Prog) ownedBy(f *ssa.Function, runRel, runName string) bool {
	run := p.Func(runRel, runName)
	if run == nil {
		return false
	}
	return p.ownerClosure(run)[f]
}

// ---------- functions started or built by a function (closures and named bodies alike) ----------

// subFunc is a function that fn starts with `go`, defers, or builds as a
// closure, identified by what it does rather than by its compiler-assigned
// name ("list$2"): turning a closure into a named method, or adding another
// closure in front of it, does not change which one a rule talks about.
type subFunc struct {
	Fn   *ssa.Function
	Go   *ssa.Go          // non-nil when started by a go statement
	Mk   *ssa.MakeClosure // non-nil for closures
	Args []ssa.Value      // for named bodies: the go call's arguments (receiver first)
}

// outer maps a free variable or parameter of the body to the value it is
// bound to in the spawning function (nil if v is neither).
func (s *subFunc) outer(v ssa.Value) ssa.Value {
	for {
		u, ok := v.(*ssa.UnOp)
		if !ok || u.Op != token.MUL {
			break
		}
		v = u.X
	}
	switch x := v.(type) {
	case *ssa.FreeVar:
		if s.Mk != nil {
			for i, fv := range s.Fn.FreeVars {
				if fv == x && i < len(s.Mk.Bindings) {
					return s.Mk.Bindings[i]
				}
			}
		}
	case *ssa.Parameter:
		for i, p := range s.Fn.Params {
			if p == x && i < len(s.Args) {
				return s.Args[i]
			}
		}
	}
	return nil
}

// storedValue: the single value stored into a local cell (captured variables are cells).
func storedValue(v ssa.Value) ssa.Value {
	a, ok := v.(*ssa.Alloc)
	if !ok {
		return v
	}
	var val ssa.Value
	n := 0
	for _, r := range *a.Referrers() {
		if st, ok := r.(*ssa.Store); ok && st.Addr == a {
			val = st.Val
			n++
		}
	}
	if n == 1 {
		return val
	}
	return v
}

// goBodiesOf lists the functions fn starts with `go` (closures and same-module named functions).
func goBodiesOf(fn *ssa.Function) []*subFunc {
	var out []*subFunc
	for _, b := range fn.Blocks {
		for _, in := range b.Instrs {
			g, ok := in.(*ssa.Go)
			if !ok {
				continue
			}
			if mk, ok := g.Call.Value.(*ssa.MakeClosure); ok {
				// `go func(x T) {…}(v)`: captured variables and explicit parameters both bind to the spawner's values
				out = append(out, &subFunc{Fn: mk.Fn.(*ssa.Function), Go: g, Mk: mk, Args: g.Call.Args})
				continue
			}
			if callee := g.Call.StaticCallee(); callee != nil && callee.Blocks != nil {
				out = append(out, &subFunc{Fn: callee, Go: g, Args: g.Call.Args})
			}
		}
	}
	return out
}

// closuresOf lists the closures fn builds (whatever it then does with them).
func closuresOf(fn *ssa.Function) []*subFunc {
	var out []*subFunc
	for _, b := range fn.Blocks {
		for _, in := range b.Instrs {
			if mk, ok := in.(*ssa.MakeClosure); ok {
				sf := &subFunc{Fn: mk.Fn.(*ssa.Function), Mk: mk}
				for _, r := range *mk.Referrers() {
					if g, ok := r.(*ssa.Go); ok {
						sf.Go = g
						sf.Args = g.Call.Args
					}
				}
				out = append(out, sf)
			}
		}
	}
	return out
}

// callsIn: static calls in f (not following further calls) whose callee satisfies pred.
func callsIn(f *ssa.Function, pred func(*ssa.CallCommon) bool) []ssa.CallInstruction {
	var out []ssa.CallInstruction
	for _, b := range f.Blocks {
		for _, in := range b.Instrs {
			if ci, ok := in.(ssa.CallInstruction); ok && pred(ci.Common()) {
				out = append(out, ci)
			}
		}
	}
	return out
}

func callsNamed(f *ssa.Function, name string) []ssa.CallInstruction {
	return callsIn(f, func(cc *ssa.CallCommon) bool {
		g := cc.StaticCallee()
		return g != nil && fnName(g) == name
	})
}

// pickSub returns the one element satisfying pred (nil if none or several).
func pickSub(subs []*subFunc, pred func(*subFunc) bool) *subFunc {
	var found *subFunc
	for _, s := range subs {
		if pred(s) {
			if found != nil {
				return nil
			}
			found = s
		}
	}
	return found
}

// sendsOnField: f contains a send on a channel read from field `field` of its receiver/captured actor.
func sendsOnField(f *ssa.Function, field string) bool {
	for _, b := range f.Blocks {
		for _, in := range b.Instrs {
			if s, ok := in.(*ssa.Send); ok && strings.HasSuffix(valPath(s.Chan), "."+field) {
				return true
			}
		}
	}
	return false
}

// sliceArg: the argument of a call effect that fills the callee's first slice-typed parameter
// (the batch a distributor is given), wherever it stands in the parameter list.
func sliceArg(e *Effect) *Term {
	if e.Fn != nil {
		for i, p := range e.Fn.Params {
			if _, ok := p.Type().Underlying().(*types.Slice); ok && i < len(e.Args) {
				return e.Args[i]
			}
		}
	}
	if len(e.Args) > 1 {
		return e.Args[1]
	}
	return &Term{K: "none"}
}

// findLoopsDeep: the loops of fn, and — when a loop has been moved into a private helper that fn
// calls exactly once, outside any loop — that helper's loops marked with the call (Loop.Via), so
// that regions are walked across the two frames.
func findLoopsDeep(p *Prog, fn *ssa.Function) []*Loop {
	out := findLoops(fn)
	own := p.ownerClosure(fn)
	count := map[*ssa.Function]int{}
	var order []*ssa.Call
	for _, b := range fn.Blocks {
		for _, in := range b.Instrs {
			call, ok := in.(*ssa.Call)
			if !ok {
				continue
			}
			g := call.Call.StaticCallee()
			if g == nil || g == fn || g.Blocks == nil || !own[g] || neverInlined(g) || inLoop(fn, b) {
				continue
			}
			count[g]++
			order = append(order, call)
		}
	}
	for _, call := range order {
		g := call.Call.StaticCallee()
		if count[g] != 1 {
			continue
		}
		for _, l := range findLoops(g) {
			l.Via = call
			out = append(out, l)
		}
	}
	return out
}

// returnedClosure: the one closure fn builds and returns (nil if none or several).
func returnedClosure(fn *ssa.Function) *ssa.Function {
	var found *ssa.Function
	n := 0
	for _, sf := range closuresOf(fn) {
		for _, r := range *sf.Mk.Referrers() {
			ret := false
			switch x := r.(type) {
			case *ssa.Return:
				ret = true
			case *ssa.MakeInterface, *ssa.ChangeType:
				for _, r2 := range *x.(ssa.Value).Referrers() {
					if _, ok := r2.(*ssa.Return); ok {
						ret = true
					}
				}
			}
			if ret {
				found = sf.Fn
				n++
			}
		}
	}
	if n == 1 {
		return found
	}
	return nil
}

// closureArgOf: the one closure fn passes to a call of a function whose name ends in suffix
// (time.AfterFunc, sort.Slice), directly or after a conversion.
func closureArgOf(fn *ssa.Function, suffix string) *ssa.Function {
	var found *ssa.Function
	n := 0
	hosts := []*ssa.Function{fn}
	if curProg != nil {
		for g := range curProg.ownerClosure(fn) { // private helpers only fn calls
			if g != fn && g.Parent() == nil {
				hosts = append(hosts, g)
			}
		}
	}
	var all []*subFunc
	for _, h := range hosts {
		all = append(all, closuresOf(h)...)
	}
	for _, sf := range all {
		var uses []ssa.Instruction
		for _, r := range *sf.Mk.Referrers() {
			uses = append(uses, r)
			if v, ok := r.(ssa.Value); ok {
				switch r.(type) {
				case *ssa.MakeInterface, *ssa.ChangeType:
					uses = append(uses, *v.Referrers()...)
				}
			}
		}
		for _, u := range uses {
			if ci, ok := u.(ssa.CallInstruction); ok {
				if g := ci.Common().StaticCallee(); g != nil && strings.HasSuffix(fnName(g), suffix) {
					found = sf.Fn
					n++
				}
			}
		}
	}
	if n == 1 {
		return found
	}
	return nil
}

// inlineOwnedLoopHelpers adds to inl the private helpers of fn (called only from fn's own
// goroutine, by plain calls) that contain loops and are called outside the given loop: a tail
// loop moved into `drain()` is then walked in place (its back-edge ends the path as "cycle",
// exactly as the same loop written inline does).
func inlineOwnedLoopHelpers(p *Prog, fn *ssa.Function, except *Loop, inl map[*ssa.Function]bool) {
	own := p.ownerClosure(fn)
	for _, b := range fn.Blocks {
		if except != nil && except.fn() == fn && except.Body[b] {
			continue
		}
		for _, in := range b.Instrs {
			call, ok := in.(*ssa.Call)
			if !ok {
				continue
			}
			g := call.Call.StaticCallee()
			if g == nil || g == fn || g.Blocks == nil || !own[g] || neverInlined(g) || len(findLoops(g)) == 0 {
				continue
			}
			if except != nil && except.fn() == g {
				continue
			}
			simple := true
			for _, gb := range g.Blocks {
				for _, gi := range gb.Instrs {
					switch gi.(type) {
					case *ssa.Go, *ssa.Defer, *ssa.MakeClosure:
						simple = false
					}
				}
			}
			if simple {
				inl[g] = true
			}
		}
	}
}

func hasGo(g *ssa.Function) bool {
	for _, b := range g.Blocks {
		for _, in := range b.Instrs {
			if _, ok := in.(*ssa.Go); ok {
				return true
			}
		}
	}
	return false
}

package main

import (
	"go/token"
	"go/types"

	"golang.org/x/tools/go/ssa"
)

// isMapEqualityFn decides, from the SSA of fn alone, that fn(a, b) returns true
// exactly when the two maps hold the same key/value pairs (nil ≡ empty) — the
// contract of labels.Equals — so that T-COVERS(Equals) can trust a hand-written
// comparison the way it trusts the library one.  The rule is exact, not a shape
// match on source text; it demands
//
//	(1) two parameters of one map type whose element type is a basic
//	    (==-comparable) type, a single bool result, no call other than len, no
//	    store, no defer/go/panic, every return a constant;
//	(2) exactly one range, over one of the parameters (X; the other is Y);
//	(3) every path from the entry to a `return true` crosses the equal-edge of
//	    a test len(a) ==/!= len(b) and the exhausted-edge of the range;
//	(4) every path from the range's next-element edge back to the range header
//	    crosses the ok-edge of a comma-ok lookup Y[k] with k the range key and
//	    the equal-edge of a test (that lookup's value) ==/!= (the range value).
//
// (3)+(4) ⇒ true is returned only if |a| = |b| and every pair of X is in Y,
// i.e. the maps are equal; conversely `return false` blocks are unconstrained,
// so the function may only err towards "not equal", which is the sound side for
// filter equality (C17: equal filters accept the same objects).
//
// "Every path from s to t crosses edge e" is decided as: t is unreachable from s
// once e is removed.
func isMapEqualityFn(fn *ssa.Function) (bool, string) {
	if fn == nil || fn.Blocks == nil || len(fn.Params) != 2 || len(fn.FreeVars) != 0 {
		return false, "not a two-parameter function with a body"
	}
	a, b := fn.Params[0], fn.Params[1]
	mt, ok := a.Type().Underlying().(*types.Map)
	if !ok || !types.Identical(a.Type(), b.Type()) {
		return false, "parameters are not two maps of one type"
	}
	if _, basic := mt.Elem().Underlying().(*types.Basic); !basic {
		return false, "map element type is not a basic comparable type"
	}
	res := fn.Signature.Results()
	if res.Len() != 1 || !types.Identical(res.At(0).Type().Underlying(), types.Typ[types.Bool]) {
		return false, "result is not a single bool"
	}
	type edge struct{ from, to *ssa.BasicBlock }
	var rng *ssa.Range
	var next *ssa.Next
	var trueRets []*ssa.BasicBlock
	for _, blk := range fn.Blocks {
		for _, in := range blk.Instrs {
			switch x := in.(type) {
			case *ssa.Range:
				if rng != nil {
					return false, "more than one range"
				}
				rng = x
			case *ssa.Next:
				if next != nil {
					return false, "more than one range step"
				}
				next = x
			case *ssa.Call:
				if bi, ok := x.Call.Value.(*ssa.Builtin); !ok || bi.Name() != "len" {
					return false, "calls something other than len"
				}
			case *ssa.Return:
				c, ok := x.Results[0].(*ssa.Const)
				if !ok || c.Value == nil {
					return false, "returns a computed value"
				}
				if c.Value.ExactString() == "true" {
					trueRets = append(trueRets, blk)
				}
			case *ssa.Lookup, *ssa.Extract, *ssa.BinOp, *ssa.UnOp, *ssa.If, *ssa.Jump, *ssa.Phi, *ssa.DebugRef:
			default:
				return false, "contains an instruction outside the comparison vocabulary"
			}
		}
	}
	if rng == nil || next == nil || next.Iter != rng || len(trueRets) == 0 {
		return false, "no range over a parameter, or no path returns true"
	}
	var x, y *ssa.Parameter
	switch rng.X {
	case ssa.Value(a):
		x, y = a, b
	case ssa.Value(b):
		x, y = b, a
	default:
		return false, "the range is not over a parameter"
	}
	_ = x
	// edges with a meaning
	stripNot := func(v ssa.Value) (ssa.Value, bool) {
		neg := false
		for {
			u, ok := v.(*ssa.UnOp)
			if !ok || u.Op != token.NOT {
				return v, neg
			}
			v, neg = u.X, !neg
		}
	}
	isLenOf := func(v ssa.Value, p *ssa.Parameter) bool {
		c, ok := v.(*ssa.Call)
		if !ok {
			return false
		}
		bi, ok := c.Call.Value.(*ssa.Builtin)
		return ok && bi.Name() == "len" && len(c.Call.Args) == 1 && c.Call.Args[0] == ssa.Value(p)
	}
	extractOf := func(v ssa.Value, tuple ssa.Value, idx int) bool {
		e, ok := v.(*ssa.Extract)
		return ok && e.Tuple == tuple && e.Index == idx
	}
	isLookupYk := func(v ssa.Value) bool {
		l, ok := v.(*ssa.Lookup)
		return ok && l.CommaOk && l.X == ssa.Value(y) && extractOf(l.Index, next, 1)
	}
	var lenEq, exhausted, hasNext, lookOK, valEq []edge
	for _, blk := range fn.Blocks {
		ifi, ok := blk.Instrs[len(blk.Instrs)-1].(*ssa.If)
		if !ok {
			continue
		}
		cond, neg := stripNot(ifi.Cond)
		tEdge, fEdge := edge{blk, blk.Succs[0]}, edge{blk, blk.Succs[1]}
		if neg {
			tEdge, fEdge = fEdge, tEdge
		}
		switch c := cond.(type) {
		case *ssa.Extract:
			if c.Tuple == ssa.Value(next) && c.Index == 0 {
				hasNext = append(hasNext, tEdge)
				exhausted = append(exhausted, fEdge)
			} else if c.Index == 1 && isLookupYk(c.Tuple) {
				lookOK = append(lookOK, tEdge)
			}
		case *ssa.BinOp:
			if c.Op != token.EQL && c.Op != token.NEQ {
				continue
			}
			eq := tEdge
			if c.Op == token.NEQ {
				eq = fEdge
			}
			switch {
			case isLenOf(c.X, a) && isLenOf(c.Y, b) || isLenOf(c.X, b) && isLenOf(c.Y, a):
				lenEq = append(lenEq, eq)
			default:
				l, r := c.X, c.Y
				for i := 0; i < 2; i++ {
					if e, ok := l.(*ssa.Extract); ok && e.Index == 0 && isLookupYk(e.Tuple) && extractOf(r, next, 2) {
						valEq = append(valEq, eq)
					}
					l, r = r, l
				}
			}
		}
	}
	if len(hasNext) != 1 || len(exhausted) != 1 {
		return false, "the range step is not tested exactly once"
	}
	reach := func(from, to *ssa.BasicBlock, cut []edge) bool {
		seen := map[*ssa.BasicBlock]bool{from: true}
		work := []*ssa.BasicBlock{from}
		for len(work) > 0 {
			n := work[len(work)-1]
			work = work[:len(work)-1]
		succ:
			for _, s := range n.Succs {
				for _, e := range cut {
					if e.from == n && e.to == s {
						continue succ
					}
				}
				if s == to {
					return true
				}
				if !seen[s] {
					seen[s] = true
					work = append(work, s)
				}
			}
		}
		return false
	}
	entry := fn.Blocks[0]
	for _, r := range trueRets {
		if len(lenEq) == 0 || reach(entry, r, lenEq) && r != entry {
			return false, "true can be returned without the lengths having compared equal"
		}
		if r == entry {
			return false, "returns true at once"
		}
		if reach(entry, r, exhausted) {
			return false, "true can be returned before the range is exhausted"
		}
	}
	header := next.Block()
	body := hasNext[0].to
	if body == header {
		return false, "empty range body"
	}
	if len(lookOK) == 0 || reach(body, header, lookOK) {
		return false, "an element can be passed without a presence-checked lookup of its key in the other map"
	}
	if len(valEq) == 0 || reach(body, header, valEq) {
		return false, "an element can be passed without its value having compared equal to the other map's"
	}
	return true, ""
}

package main

var props []propSpec

func init() {
	props = []propSpec{
		{ID: "C01", Level: "other", Run: checkC01,
			Explanation: "Static decision-table extraction: every acyclic SSA path of doUpdate, of one doSync list-element step and of the doSync sweep is classified over the atoms {parseOK,isDelete,found,accNew,accCur,ord} and its effects on c.items / the event list are compared with the reference semantics of C01 for every abstract input (so for every object, version, filter and, by induction over steps, every history). Plus: doRefilter = set filter then doSync(list); run-loop dispatch; key construction; single-owner confinement of items/filter; no Accept on an absent entry; parse errors skipped.",
			Assumptions: []string{"user filters are pure and terminate", "strconv.Atoi defines 'numeric'", "lists with duplicate keys are judged as the left fold of the item step"}},
	}
}

func checkC01(c *Ctx) {
	m := newCacheModel(c)
	m.checkDoUpdate()
	m.checkDoSync()
	m.checkDoRefilter()
	m.checkHelpers()
	m.checkRunLoop()
	m.checkDoList()
	m.checkKeySites()
	m.checkConfinement()
	c.floor("T-TABLE(doUpdate)", 20, "doUpdate has 9 paths covering 48 abstract rows")
	c.floor("T-TABLE(doSync.item)", 20, "doSync item step")
	c.floor("T-TABLE(doSync.sweep)", 3, "sweep: exit, in set, not in set")
	c.floor("T-TABLE(_cache.run)", 7, "6 arms, get arm twice")
	c.floor("T-CONFINE(_cache)", 8, "2 fields x accessor functions + call sites")
}

package main

// C20: generated typed packages and joins are instances of their templates
// (translation validation on the token level), template robustness rules on
// the instances, typed clients against client-go's own typed clients.

import (
	"fmt"
	"go/ast"
	"go/printer"
	"go/scanner"
	"go/token"
	"go/types"
	"os"
	"path/filepath"
	"regexp"
	"sort"
	"strings"

	"go/parser"

	"golang.org/x/tools/go/ssa"
)

type tok struct {
	t   token.Token
	lit string
	pos token.Position
}

func tokenize(src []byte, name string) []tok {
	fset := token.NewFileSet()
	f := fset.AddFile(name, -1, len(src))
	var s scanner.Scanner
	s.Init(f, src, nil, 0) // comments skipped
	var out []tok
	for {
		p, t, l := s.Scan()
		if t == token.EOF {
			break
		}
		if t == token.SEMICOLON && l == "\n" {
			l = ";"
		}
		if t.IsOperator() || t.IsKeyword() {
			l = t.String()
		}
		out = append(out, tok{t, l, fset.Position(p)})
	}
	return out
}

// declTokens renders the non-import declarations of a parsed file, one
// token stream per declaration, keyed by a declaration name.
func declStreams(path string, skip func(d ast.Decl) bool) (map[string][]tok, []string, error) {
	fset := token.NewFileSet()
	f, err := parser.ParseFile(fset, path, nil, parser.SkipObjectResolution)
	if err != nil {
		return nil, nil, err
	}
	out := map[string][]tok{}
	var order []string
	for _, d := range f.Decls {
		if gd, ok := d.(*ast.GenDecl); ok && gd.Tok == token.IMPORT {
			continue
		}
		if skip != nil && skip(d) {
			continue
		}
		name := declName(d)
		var sb strings.Builder
		printer.Fprint(&sb, fset, d)
		if _, dup := out[name]; dup {
			name = fmt.Sprintf("%s#%d", name, len(order))
		}
		out[name] = tokenize([]byte(sb.String()), name)
		order = append(order, name)
	}
	return out, order, nil
}

func declName(d ast.Decl) string {
	switch x := d.(type) {
	case *ast.FuncDecl:
		if x.Recv != nil && len(x.Recv.List) > 0 {
			var sb strings.Builder
			printer.Fprint(&sb, token.NewFileSet(), x.Recv.List[0].Type)
			return "(" + sb.String() + ")." + x.Name.Name
		}
		return x.Name.Name
	case *ast.GenDecl:
		var names []string
		for _, s := range x.Specs {
			switch sp := s.(type) {
			case *ast.TypeSpec:
				names = append(names, sp.Name.Name)
			case *ast.ValueSpec:
				for _, n := range sp.Names {
					names = append(names, n.Name)
				}
			}
		}
		return x.Tok.String() + " " + strings.Join(names, ",")
	}
	return "?"
}

// unifyStreams compares a template token stream with an instance stream,
// binding the meta identifier to one token sequence.  Returns the number of
// tokens compared and a description of the first disagreement.
func unifyStreams(tmpl, inst []tok, meta string, binding *[]string) (int, string) {
	i, j, n := 0, 0, 0
	for i < len(tmpl) {
		t := tmpl[i]
		if t.t == token.IDENT && t.lit == meta {
			if *binding == nil {
				// bind: instance tokens up to the template's next token at depth 0
				var next *tok
				if i+1 < len(tmpl) {
					next = &tmpl[i+1]
				}
				depth := 0
				var b []string
				for j < len(inst) {
					x := inst[j]
					if depth == 0 && next != nil && x.t == next.t && x.lit == next.lit && len(b) > 0 {
						break
					}
					switch x.t {
					case token.LPAREN, token.LBRACK, token.LBRACE:
						depth++
					case token.RPAREN, token.RBRACK, token.RBRACE:
						if depth == 0 {
							goto bound
						}
						depth--
					}
					b = append(b, x.lit)
					j++
					if len(b) > 8 {
						return n, fmt.Sprintf("cannot bind %s near %s", meta, x.pos)
					}
				}
			bound:
				if len(b) == 0 {
					return n, "empty binding for " + meta
				}
				*binding = b
			} else {
				for _, w := range *binding {
					if j >= len(inst) || inst[j].lit != w {
						got := "<end>"
						where := ""
						if j < len(inst) {
							got, where = inst[j].lit, inst[j].pos.String()
						}
						return n, fmt.Sprintf("at %s: expected %s (instance of %s), found %q", where, strings.Join(*binding, ""), meta, got)
					}
					j++
				}
			}
			n++
			i++
			continue
		}
		if j >= len(inst) {
			return n, fmt.Sprintf("instance ends early; template continues with %q", t.lit)
		}
		if inst[j].t != t.t || inst[j].lit != t.lit {
			return n, fmt.Sprintf("line %d: template has %q, generated file has %q", inst[j].pos.Line, t.lit, inst[j].lit)
		}
		n++
		i++
		j++
	}
	if j != len(inst) {
		return n, fmt.Sprintf("generated declaration has extra tokens starting with %q", inst[j].lit)
	}
	return n, ""
}

func checkTypedInstances(c *Ctx) {
	rule := "T-INSTANCE(typed)"
	tmplPath := filepath.Join(c.P.Dir, "types/gen/template.go")
	tmpl, order, err := declStreams(tmplPath, func(d ast.Decl) bool {
		// the genny placeholder declaration itself
		if gd, ok := d.(*ast.GenDecl); ok && gd.Tok == token.TYPE {
			for _, s := range gd.Specs {
				if ts, ok := s.(*ast.TypeSpec); ok && ts.Name.Name == "ObjectType" {
					return true
				}
			}
		}
		return false
	})
	if err != nil {
		c.undecided(rule, "types/gen/template.go", "-", "cannot parse the template: "+err.Error())
		return
	}
	rels := typedRels(c)
	c.check(len(rels) >= 12, rule, "typed-packages", "-", fmt.Sprintf("%d typed packages", len(rels)), fmt.Sprintf("found %d generated typed packages, hand-confirmed 12", len(rels)))
	for _, rel := range rels {
		gpath := filepath.Join(c.P.Dir, rel, "generated.go")
		inst, iorder, err := declStreams(gpath, nil)
		if err != nil {
			c.undecided(rule, rel+"/generated.go", "-", "cannot parse: "+err.Error())
			continue
		}
		tvPrograms++
		var binding []string
		bad := ""
		nodes := 0
		for _, name := range order {
			it, ok := inst[name]
			if !ok {
				// declaration names containing the meta identifier do not occur in this template
				bad = "declaration " + name + " of the template is missing from the generated file"
				break
			}
			n, diff := unifyStreams(tmpl[name], it, "ObjectType", &binding)
			nodes += n
			if diff != "" {
				bad = "declaration " + name + ": " + diff
				break
			}
		}
		if bad == "" && len(iorder) != len(order) {
			extra := []string{}
			for _, n := range iorder {
				if _, ok := tmpl[n]; !ok {
					extra = append(extra, n)
				}
			}
			bad = fmt.Sprintf("generated file has declarations the template does not have: %v", extra)
		}
		tvNodes += nodes
		pkg := filepath.Base(rel)
		bound := strings.Join(binding, "")
		if bad == "" {
			// bound kind, lower-cased, is the package name
			kind := bound
			if i := strings.LastIndex(kind, "."); i >= 0 {
				kind = kind[i+1:]
			}
			if strings.ToLower(kind) != pkg {
				bad = fmt.Sprintf("ObjectType is bound to %s, which is not the kind of package %s", bound, pkg)
			}
			if !strings.HasPrefix(bound, "*") {
				bad = "ObjectType is not bound to a pointer type: " + bound
			}
		}
		c.check(bad == "", rule, rel+"/generated.go=template[ObjectType:="+pkg+"]", rel+"/generated.go", fmt.Sprintf("%d tokens unified, ObjectType := %s", nodes, bound), rel+"/generated.go is not the template instantiated for its type: "+bad)
	}
}

var joinTmplRe = regexp.MustCompile("(?s)template\\.New\\(\"join\"\\)\\.Parse\\(`(.*?)`\\)")

func checkJoinInstances(c *Ctx) {
	rule := "T-INSTANCE(join)"
	src, err := os.ReadFile(filepath.Join(c.P.Dir, "join/gen/main.go"))
	if err != nil {
		c.undecided(rule, "join/gen/main.go", "-", "cannot read the join template: "+err.Error())
		return
	}
	m := joinTmplRe.FindSubmatch(src)
	if m == nil {
		c.undecided(rule, "join/gen/main.go", "-", "template literal not found")
		return
	}
	tmplText := string(m[1])
	files, _ := filepath.Glob(filepath.Join(c.P.Dir, "join", "generated_*.go"))
	sort.Strings(files)
	c.check(len(files) >= 8, rule, "generated-joins", "-", fmt.Sprintf("%d files", len(files)), fmt.Sprintf("found %d generated join files, hand-confirmed 8", len(files)))
	for _, gpath := range files {
		base := filepath.Base(gpath)
		tvPrograms++
		fset := token.NewFileSet()
		gf, err := parser.ParseFile(fset, gpath, nil, parser.SkipObjectResolution)
		if err != nil {
			c.undecided(rule, "join/"+base, "-", "cannot parse: "+err.Error())
			continue
		}
		var fd *ast.FuncDecl
		for _, d := range gf.Decls {
			if f, ok := d.(*ast.FuncDecl); ok {
				if fd != nil {
					fd = nil
					break
				}
				fd = f
			}
		}
		bad := ""
		nodes := 0
		if fd == nil || fd.Type.Params == nil || len(fd.Type.Params.List) != 4 {
			bad = "expected exactly one function with four parameters"
		} else {
			expr := func(e ast.Expr) string {
				var sb strings.Builder
				printer.Fprint(&sb, fset, e)
				return sb.String()
			}
			srcT := expr(fd.Type.Params.List[1].Type) // service.Controller
			dstT := expr(fd.Type.Params.List[2].Type) // pod.Publisher
			srcPkg := strings.TrimSuffix(srcT, ".Controller")
			dstPkg := strings.TrimSuffix(dstT, ".Publisher")
			srcType := ""
			if ft, ok := fd.Type.Params.List[3].Type.(*ast.FuncType); ok && len(ft.Params.List) == 1 {
				if el, ok := ft.Params.List[0].Type.(*ast.Ellipsis); ok {
					srcType = expr(el.Elt)
				}
			}
			dstName := strings.ToUpper(dstPkg[:1]) + dstPkg[1:]
			srcName := strings.TrimSuffix(fd.Name.Name, dstName+"sWith")
			if srcType == "" || srcName == fd.Name.Name || srcPkg == srcT || dstPkg == dstT {
				bad = "cannot read the template arguments off the generated signature"
			} else {
				text := tmplText
				for k, v := range map[string]string{"{{.SrcName}}": srcName, "{{.SrcPkg}}": srcPkg, "{{.SrcType}}": srcType, "{{.DstName}}": dstName, "{{.DstPkg}}": dstPkg} {
					text = strings.ReplaceAll(text, k, v)
				}
				if strings.Contains(text, "{{") {
					bad = "template has holes this checker does not know"
				} else {
					tfset := token.NewFileSet()
					tf, err := parser.ParseFile(tfset, "template", text, parser.SkipObjectResolution)
					if err != nil {
						bad = "instantiated template does not parse: " + err.Error()
					} else {
						var tfd *ast.FuncDecl
						for _, d := range tf.Decls {
							if f, ok := d.(*ast.FuncDecl); ok {
								tfd = f
							}
						}
						var a, b strings.Builder
						printer.Fprint(&a, tfset, tfd)
						printer.Fprint(&b, fset, fd)
						ta, tb := tokenize([]byte(a.String()), "template"), tokenize([]byte(b.String()), base)
						var none []string
						n, diff := unifyStreams(ta, tb, "\x00", &none)
						nodes = n
						if diff != "" {
							bad = diff
						}
						// the kind named by SrcType is the kind of the source package
						kind := srcType[strings.LastIndex(srcType, ".")+1:]
						if strings.ToLower(kind) != srcPkg {
							bad = fmt.Sprintf("source type %s is not the kind of package %s", srcType, srcPkg)
						}
					}
				}
			}
		}
		tvNodes += nodes
		c.check(bad == "", rule, "join/"+base+"=template-instance", "join/"+base, fmt.Sprintf("%d tokens equal", nodes), "join/"+base+" is not the join template instantiated for its signature: "+bad)
	}
}

// ---------- template robustness on the instances ----------

func checkTypedRobustness(c *Ctx, rel string) {
	rule := "T-SHAPE(typed)"
	// adaptObject: comma-ok assertion; ok → (obj, nil); else (nil, ErrInvalidType)
	if fn := c.mustFunc(rel, "_adapter.adaptObject"); fn != nil {
		ps := pathsOf(c, fn)
		ok := len(ps) == 2
		for _, pa := range ps {
			var asOK, known bool
			for _, l := range pa.Lits {
				if l.T.K == "assertok" {
					asOK, known = l.Val, true
				}
			}
			if !known || len(pa.End.Results) != 2 {
				ok = false
				continue
			}
			if asOK && !(pa.End.Results[0].K == "typeassert" && pa.End.Results[1].IsNil()) {
				ok = false
			}
			if !asOK && !(pa.End.Results[0].IsNil() && !pa.End.Results[1].IsNil()) {
				ok = false
			}
		}
		for _, b := range fn.Blocks {
			for _, in := range b.Instrs {
				if ta, isTA := in.(*ssa.TypeAssert); isTA && !ta.CommaOk {
					ok = false
				}
			}
		}
		c.check(ok, rule, rel+":_adapter.adaptObject/comma-ok", c.P.fnPos(fn), "", rel+": adaptObject does not use a comma-ok assertion returning (obj,nil) / (nil, ErrInvalidType): an object of another type would panic")
	}
	// adaptList: skip on error, never fail
	if fn := c.mustFunc(rel, "_adapter.adaptList"); fn != nil {
		lp := findLoopsDeep(c.P, fn)
		ok, detail := len(lp) == 1, ""
		if ok {
			ips := (&Walker{P: c.P}).IterRegion(fn, lp[0])
			c.paths += len(ips)
			for _, pa := range ips {
				var more, errNil, errKnown bool
				for _, l := range pa.Lits {
					if l.T.K == "binop" && l.T.S == "<" {
						more = l.Val
					}
					if x, okk := isNilTest(l.T); okk && x.K == "extract" && x.S == "1" {
						errNil, errKnown = l.Val, true
					}
				}
				switch {
				case !more:
					if pa.End.Kind != "return" || len(pa.End.Results) != 2 || !pa.End.Results[1].IsNil() {
						ok, detail = false, "does not return (list, nil) after the last element"
					}
				case errKnown && !errNil:
					if pa.End.Kind != "stop" {
						ok, detail = false, "an object of another type aborts the list instead of being skipped"
					}
					for _, e := range pa.Effects {
						if e.Kind == "append" {
							ok, detail = false, "an unadaptable object is appended"
						}
					}
				case errKnown && errNil:
					n := 0
					for _, e := range pa.Effects {
						if e.Kind == "append" {
							n++
						}
					}
					if n != 1 || pa.End.Kind != "stop" {
						ok, detail = false, "an adaptable object is not appended exactly once"
					}
				default:
					ok, detail = false, "loop body not keyed on the adapter error"
				}
			}
		} else {
			detail = "expected one loop"
		}
		c.check(ok, rule, rel+":_adapter.adaptList/skip-foreign-objects", c.P.fnPos(fn), "", rel+": adaptList: "+detail)
	}
	// typed subscription.run: range over parent.Events(); wrap error → skip; non-blocking send; defer close(outch)
	if fn := c.mustFunc(rel, "subscription.run"); fn != nil {
		lp := findLoopsDeep(c.P, fn)
		ok, detail := len(lp) == 1, ""
		if ok {
			pre := (&Walker{P: c.P}).PreludeRegion(fn, lp[0])
			hasClose := false
			for _, pa := range pre {
				for _, e := range pa.Effects {
					if e.Kind == "defer" && e.Method == "close" && len(e.Args) == 1 && e.Args[0].IsRecvField("outch") {
						hasClose = true
					}
				}
			}
			if !hasClose {
				ok, detail = false, "outch is not closed on exit"
			}
			ips := (&Walker{P: c.P}).IterRegion(fn, lp[0])
			c.paths += len(ips) + len(pre)
			for _, pa := range ips {
				var open, openK, errNil, errK bool
				for _, l := range pa.Lits {
					if l.T.K == "recvok" {
						open, openK = l.Val, true
					}
					if x, okk := isNilTest(l.T); okk && x.K == "extract" && x.S == "1" {
						errNil, errK = l.Val, true
					}
				}
				sends := 0
				for _, e := range pa.Effects {
					switch e.Kind {
					case "select":
						if e.Blocking {
							ok, detail = false, "blocking select in the typed forwarding loop"
						}
						sends++
					case "send":
						ok, detail = false, "blocking send in the typed forwarding loop"
					case "go":
						ok, detail = false, "goroutine in the typed forwarding loop"
					}
				}
				switch {
				case openK && !open:
					if pa.End.Kind != "return" {
						ok, detail = false, "does not end when the parent's event channel closes"
					}
				case errK && !errNil:
					if sends != 0 || pa.End.Kind != "stop" {
						ok, detail = false, "an event carrying another type is not skipped"
					}
				case errK && errNil:
					// the non-blocking select forks into sent/default: one select effect each
					if sends != 1 || pa.End.Kind != "stop" {
						ok, detail = false, "a wrapped event is not forwarded exactly once"
					}
				}
			}
		} else {
			detail = "expected one loop over the parent's events"
		}
		c.check(ok, rule, rel+":subscription.run/forward-wrapped-events", c.P.fnPos(fn), "", rel+": typed subscription.run: "+detail)
	}
	// forwarding methods
	fwd := [][3]string{
		{"subscription.Ready", "parent", "Ready"}, {"subscription.Close", "parent", "Close"}, {"subscription.Done", "parent", "Done"},
		{"controller.Ready", "parent", "Ready"}, {"controller.Close", "parent", "Close"}, {"controller.Done", "parent", "Done"}, {"controller.Error", "parent", "Error"},
		{"filterController.Refilter", "filterParent", "Refilter"}, {"filterSubscription.Refilter", "filterParent", "Refilter"},
		{"controller.Subscribe", "parent", "Subscribe"}, {"controller.SubscribeWithFilter", "parent", "SubscribeWithFilter"}, {"controller.SubscribeForFilter", "parent", "SubscribeForFilter"},
		{"controller.Clone", "parent", "Clone"}, {"controller.CloneWithFilter", "parent", "CloneWithFilter"}, {"controller.CloneForFilter", "parent", "CloneForFilter"},
		{"cache.List", "parent", "List"}, {"cache.Get", "parent", "Get"},
	}
	for _, f := range fwd {
		fn := c.mustFunc(rel, f[0])
		if fn == nil {
			continue
		}
		ps := pathsOf(c, fn)
		ok := len(ps) >= 1
		for _, pa := range ps {
			n := 0
			for _, e := range pa.Effects {
				if e.Kind == "invoke" && !e.IsPure() || e.Kind == "invoke" && e.Method == f[2] {
					if e.Method == f[2] {
						if p, okp := e.Recv.FieldPath(); okp && strings.HasSuffix(p, "."+f[1]) {
							n++
							// arguments are the method's own parameters, in order
							for k, a := range e.Args {
								if !(a.K == "param" && k+1 < len(fn.Params) && a.S == fn.Params[k+1].Name()) {
									ok = false
								}
							}
							continue
						}
					}
					ok = false
				}
			}
			if n != 1 {
				ok = false
			}
		}
		c.check(ok, rule, rel+":"+f[0]+"/forwards-to-."+f[1]+"."+f[2], c.P.fnPos(fn), "", rel+": "+f[0]+" does not forward exactly once to "+f[1]+"."+f[2]+" with its own arguments")
	}
	for _, f := range [][2]string{{"subscription.Cache", "cache"}, {"controller.Cache", "cache"}, {"subscription.Events", "outch"}} {
		if fn := c.mustFunc(rel, f[0]); fn != nil {
			ps := pathsOf(c, fn)
			ok := len(ps) == 1 && len(ps[0].End.Results) == 1 && ps[0].End.Results[0].IsRecvField(f[1])
			c.check(ok, rule, rel+":"+f[0]+"/returns-own-"+f[1], c.P.fnPos(fn), "", rel+": "+f[0]+" does not return its own "+f[1])
		}
	}
	// BuildController(ctx, log, client) hands all three to the untyped constructor
	if fn := c.mustFunc(rel, "BuildController"); fn != nil && len(fn.Params) == 3 {
		ok := false
		for _, pa := range pathsOf(c, fn) {
			got := map[string]bool{}
			for _, e := range pa.Effects {
				if e.Kind == "call" && e.Fn != nil && fnName(e.Fn) == "NewController" && len(e.Args) == 3 {
					for i, a := range e.Args {
						if isParamT(a, fn.Params[i].Name()) {
							got[fn.Params[i].Name()] = true
						}
					}
				}
				if e.Kind == "invoke" && len(e.Args) == 1 && e.Args[0].K == "param" {
					// builder chain: Context(ctx), Log(log), Client(client)
					want := map[string]int{"Context": 0, "Log": 1, "Client": 2}
					if i, okm := want[e.Method]; okm && isParamT(e.Args[0], fn.Params[i].Name()) {
						got[fn.Params[i].Name()] = true
					}
				}
			}
			if len(got) == 3 {
				ok = true
			}
		}
		c.check(ok, rule, rel+":BuildController/passes-ctx-log-client", c.P.fnPos(fn), "", rel+": BuildController does not hand its context, log and client to the untyped controller (a typed controller would not follow its context's cancellation, or use another client)")
	}
	if fn := c.mustFunc(rel, "NewController"); fn != nil && len(fn.Params) == 4 {
		ok := false
		for _, pa := range pathsOf(c, fn) {
			for _, e := range pa.Effects {
				if e.Kind == "call" && e.Fn != nil && e.Fn.Name() == "BuildController" && len(e.Args) == 3 {
					cl, isNC := isCall(e.Args[2], rel+":NewClient")
					ok = isParamT(e.Args[0], fn.Params[0].Name()) && isParamT(e.Args[1], fn.Params[1].Name()) && isNC && len(cl) == 2 && isParamT(cl[0], fn.Params[2].Name()) && isParamT(cl[1], fn.Params[3].Name())
				}
			}
		}
		c.check(ok, rule, rel+":NewController/BuildController(ctx,log,NewClient(cs,ns))", c.P.fnPos(fn), "", rel+": NewController is not BuildController(ctx, log, NewClient(cs, ns))")
	}
	// typed handler slots: each callback calls its own slot, guarded by that slot being set
	for _, m := range [][3]string{{"baseHandler.OnCreate", "onCreate", ""}, {"baseHandler.OnUpdate", "onUpdate", ""}, {"baseHandler.OnDelete", "onDelete", ""}, {"handler.OnInitialize", "onInitialize", ""}, {"unitaryHandler.OnInitialize", "onInitialize", ""}} {
		fn := c.mustFunc(rel, m[0])
		if fn == nil {
			continue
		}
		ok, calls := true, 0
		for _, pa := range pathsOf(c, fn) {
			for _, e := range pa.Effects {
				if e.Kind == "dyncall" {
					calls++
					guarded := false
					for _, l := range pa.Lits {
						if x, isNil := isNilTest(l.T); isNil && x.IsField(m[1]) && !l.Val {
							guarded = true
						}
					}
					if !(e.Recv.IsField(m[1]) && len(e.Args) == 1 && e.Args[0].K == "param" && guarded) {
						ok = false
					}
				} else if !e.IsPure() && e.Kind != "rundefers" {
					ok = false
				}
			}
		}
		c.check(ok && calls == 1, rule, rel+":"+m[0]+"/calls-own-slot-if-set", c.P.fnPos(fn), "", rel+": "+m[0]+" does not call exactly its own "+m[1]+" slot, guarded by that slot being non-nil")
	}
	// no panicking type assertion to the object type anywhere in the instance
	n := 0
	for _, f := range c.P.SrcFuncs(rel) {
		pos := c.P.Fset.Position(f.Pos())
		if filepath.Base(pos.Filename) != "generated.go" {
			continue
		}
		for _, b := range f.Blocks {
			for _, in := range b.Instrs {
				if ta, ok := in.(*ssa.TypeAssert); ok {
					n++
					if _, isIface := ta.AssertedType.Underlying().(*types.Interface); !isIface && !ta.CommaOk {
						c.fail(rule, rel+":"+fnName(f)+"/panicking-assertion", c.P.instrPos(in), "a type assertion without comma-ok in generated code: an object of another type crashes the typed package instead of being skipped")
					}
				}
			}
		}
	}
	c.ok(rule, rel+"/assertions-comma-ok", "-", fmt.Sprintf("%d assertions", n))
}

// ---------- typed clients ----------

func checkTypedClients(c *Ctx, rels []string) {
	rule := "T-SIBLING(NewClient)"
	for _, rel := range rels {
		fn := c.mustFunc(rel, "NewClient")
		if fn == nil {
			continue
		}
		pos := c.P.fnPos(fn)
		ps := pathsOf(c, fn)
		bad := ""
		if len(ps) != 1 || len(fn.Params) != 2 {
			bad = "NewClient is not straight-line (cs, ns)"
		} else {
			pa := ps[0]
			var group *Effect
			var forRes *Effect
			for _, e := range pa.Effects {
				if e.Kind == "invoke" && isParamT(e.Recv, fn.Params[0].Name()) {
					group = e
				}
				if e.Kind == "call" && e.Fn != nil && fnName(e.Fn) == "client:ForResource" {
					forRes = e
				}
			}
			if group == nil || forRes == nil {
				bad = "does not call cs.<Group>() and client.ForResource"
			} else {
				// resource name constant of this package
				resLit, okc := c.P.constLit(rel, "resourceName")
				if !okc {
					bad = "no resourceName constant"
				}
				a := forRes.Args
				if bad == "" && !(len(a) == 3 && a[1].K == "const" && a[1].S == resLit && isParamT(a[2], fn.Params[1].Name())) {
					bad = "ForResource is not given (…, resourceName, ns)"
				}
				if bad == "" {
					rc, _, isRC := isInvoke(a[0], "RESTClient")
					if !isRC || !sameTerm(rc, group.Res) {
						bad = "ForResource is not given the RESTClient of the chosen API group"
					}
				}
				if bad == "" {
					want, why := clientGoResource(c, group, filepath.Base(rel))
					if want == "" {
						bad = why
					} else if fmt.Sprintf("%q", want) != resLit {
						bad = fmt.Sprintf("resourceName is %s but client-go's typed client for this kind uses %q", resLit, want)
					}
				}
			}
		}
		c.check(bad == "", rule, rel+":NewClient/group-and-resource-agree-with-client-go", pos, "", rel+": NewClient: "+bad)
	}
	checkClientRequestFlows(c)
}

// checkClientRequestFlows: every List/Watch call builds its own request from
// the captured (c, res, ns) and the call's own options and context.
func checkClientRequestFlows(c *Ctx) {
	rule := "T-SIBLING(NewClient)"
	// client.ForResource: ns → Namespace, res → Resource, ctx → Do/Watch in both closures
	for _, k := range [][2]string{{"makeResourceListFn", "Do"}, {"makeResourceWatchFn", "Watch"}} {
		mk := c.mustFunc("client", k[0])
		if mk == nil {
			continue
		}
		fn := returnedClosure(mk)
		if fn == nil {
			c.undecided(rule, "client:"+k[0]+"/returned-closure", c.P.fnPos(mk), k[0]+" does not build and return exactly one closure")
			continue
		}
		c.useFn(fn)
		k[0] += "$1" // obligation keys keep the historical closure label
		ps := pathsOf(c, fn)
		ok, detail := len(ps) >= 1, ""
		for _, pa := range ps {
			var sawNS, sawRes, sawCtx, sawParams bool
			for _, e := range pa.Effects {
				if e.Kind != "call" || e.Fn == nil {
					continue
				}
				n := fnName(e.Fn)
				switch {
				case strings.HasSuffix(n, "rest.Request.Namespace"):
					if len(e.Args) == 2 && (e.Args[1].K == "freevar" || e.Args[1].K == "load") && strings.Contains(e.Args[1].Key(), "ns") {
						sawNS = true
					}
				case strings.HasSuffix(n, "rest.Request.NamespaceIfScoped"):
					detail = "the namespace is applied conditionally (NamespaceIfScoped): list and watch could be scoped differently"
				case strings.HasSuffix(n, "rest.Request.Resource"):
					if len(e.Args) == 2 && strings.Contains(e.Args[1].Key(), "res") {
						sawRes = true
					}
				case strings.HasSuffix(n, "rest.Request.VersionedParams"):
					// the options of *this* call (the closure's own parameter)
					if len(e.Args) >= 2 && strings.Contains(e.Args[1].Key(), "opts") {
						sawParams = true
					}
				case strings.HasSuffix(n, "rest.Request.Get"):
				case strings.HasSuffix(n, "rest.Request."+k[1]):
					if len(e.Args) == 2 && e.Args[1].K == "param" {
						sawCtx = true
					}
				}
			}
			// the options are passed on as given: nothing is written into them (a default page
			// size without following the continue token would truncate every list)
			for _, e := range pa.Effects {
				if e.Kind == "store" && e.Addr != nil && strings.Contains(e.Addr.Key(), "opts") && e.Addr.K == "faddr" {
					detail = "the caller's options are modified before the request (." + e.Addr.S + ")"
				}
			}
			if !sawNS && detail == "" {
				detail = "the requested namespace does not reach Request.Namespace()"
			}
			if !sawRes && detail == "" {
				detail = "the resource name does not reach Request.Resource()"
			}
			if !sawCtx && detail == "" {
				detail = "the caller's context does not reach " + k[1] + "()"
			}
			if !sawParams && detail == "" {
				detail = "the list options are not encoded into the request"
			}
			if detail != "" {
				ok = false
			}
		}
		c.check(ok, rule, "client:"+k[0]+"/ns-res-ctx-reach-the-request", c.P.fnPos(fn), "", "client."+k[0]+": "+detail)
	}
	// client.List / client.Watch hand the call on exactly once, with the caller's context and
	// options, and return what they get (no retry with other options, no second attempt)
	for _, k := range [][2]string{{"client.List", "list"}, {"client.Watch", "watch"}} {
		fn := c.mustFunc("client", k[0])
		if fn == nil {
			continue
		}
		ps := pathsOf(c, fn)
		ok := len(ps) == 1 && len(fn.Params) == 3
		if ok {
			pa := ps[0]
			n := 0
			var res *Term
			for _, e := range pa.Effects {
				switch {
				case e.IsPure():
				case e.Kind == "dyncall" || e.Kind == "call" || e.Kind == "invoke":
					n++
					res = e.Res
					callee := e.Recv
					if callee == nil && len(e.Res.A) > 0 {
						callee = e.Res.A[0]
					}
					args := e.Args
					if !(callee != nil && callee.IsRecvField(k[1])) || len(args) < 2 || !isParamT(args[len(args)-2], fn.Params[1].Name()) || !isParamT(args[len(args)-1], fn.Params[2].Name()) {
						ok = false
					}
				default:
					ok = false
				}
			}
			if n != 1 || res == nil || pa.End.Kind != "return" || len(pa.End.Results) != 2 {
				ok = false
			} else {
				for i, r := range pa.End.Results {
					if !(r.K == "extract" && r.S == fmt.Sprint(i) && sameTerm(r.A[0], res)) {
						ok = false
					}
				}
			}
		}
		c.check(ok, rule, "client:"+k[0]+"/forwards-once-unchanged", c.P.fnPos(fn), "", "client."+k[0]+" is not a single forward of (ctx, opts) to ."+k[1]+" returning its results: a retry, a changed option or a second attempt changes where a watch resumes or what a list returns")
	}
	if fn := c.mustFunc("client", "ForResource"); fn != nil {
		ps := pathsOf(c, fn)
		ok := len(ps) == 1
		if ok {
			var l, w *Term
			for _, e := range ps[0].Effects {
				if e.Kind == "call" && e.Fn != nil {
					switch fnName(e.Fn) {
					case "client:makeResourceListFn":
						l = e.Res
						for i, a := range e.Args {
							if !isParamT(a, fn.Params[i].Name()) {
								ok = false
							}
						}
					case "client:makeResourceWatchFn":
						w = e.Res
						for i, a := range e.Args {
							if !isParamT(a, fn.Params[i].Name()) {
								ok = false
							}
						}
					case "client:NewClient":
						if len(e.Args) != 2 || !sameTerm(e.Args[0], l) || !sameTerm(e.Args[1], w) {
							ok = false
						}
					}
				}
			}
			if l == nil || w == nil {
				ok = false
			}
		}
		c.check(ok, rule, "client:ForResource/list-and-watch-from-same-(c,res,ns)", c.P.fnPos(fn), "", "client.ForResource does not build NewClient(listFn(c,res,ns), watchFn(c,res,ns))")
	}
}

// clientGoResource: the REST resource string client-go's own typed client uses
// for the kind of package `pkg`, found through the group accessor's result type.
func clientGoResource(c *Ctx, group *Effect, pkg string) (string, string) {
	call, ok := group.In.(*ssa.Call)
	if !ok {
		return "", "group accessor is not a call"
	}
	res := call.Call.Method.Type().(*types.Signature).Results()
	if res.Len() != 1 {
		return "", "group accessor has no single result"
	}
	iface, ok := res.At(0).Type().Underlying().(*types.Interface)
	if !ok {
		return "", "group accessor does not return an interface"
	}
	named, _ := res.At(0).Type().(*types.Named)
	// getter whose result interface has List(...) (*<Kind>List, error) with lower(Kind)==pkg
	for i := 0; i < iface.NumMethods(); i++ {
		m := iface.Method(i)
		sig := m.Type().(*types.Signature)
		if sig.Results().Len() != 1 {
			continue
		}
		ri, ok := sig.Results().At(0).Type().Underlying().(*types.Interface)
		if !ok {
			continue
		}
		for j := 0; j < ri.NumMethods(); j++ {
			lm := ri.Method(j)
			if lm.Name() != "List" {
				continue
			}
			ls := lm.Type().(*types.Signature)
			if ls.Results().Len() != 2 {
				continue
			}
			pt, ok := ls.Results().At(0).Type().(*types.Pointer)
			if !ok {
				continue
			}
			ln, ok := pt.Elem().(*types.Named)
			if !ok || !strings.HasSuffix(ln.Obj().Name(), "List") {
				continue
			}
			kind := strings.TrimSuffix(ln.Obj().Name(), "List")
			if strings.ToLower(kind) != pkg {
				continue
			}
			// implementation: in the package declaring the group interface, the function m's concrete
			// result type; find its List method and the Resource("…") constant inside
			if named == nil || named.Obj().Pkg() == nil {
				return "", "group interface has no package"
			}
			sp := c.P.SPkg[named.Obj().Pkg().Path()]
			if sp == nil {
				return "", "client-go typed package not loaded"
			}
			for _, mem := range sp.Members {
				t, ok := mem.(*ssa.Type)
				if !ok {
					continue
				}
				if _, isIface := t.Type().Underlying().(*types.Interface); isIface {
					continue
				}
				sel := c.P.SSA.MethodSets.MethodSet(types.NewPointer(t.Type())).Lookup(sp.Pkg, "List")
				if sel == nil {
					continue
				}
				lf := c.P.SSA.MethodValue(sel)
				if lf == nil || lf.Blocks == nil || lf.Signature.Results().Len() != 2 {
					continue
				}
				if !types.Identical(lf.Signature.Results().At(0).Type(), ls.Results().At(0).Type()) {
					continue
				}
				for _, b := range lf.Blocks {
					for _, in := range b.Instrs {
						if cl, ok := in.(*ssa.Call); ok {
							if g := cl.Call.StaticCallee(); g != nil && g.Name() == "Resource" && len(cl.Call.Args) == 2 {
								if k, ok := cl.Call.Args[1].(*ssa.Const); ok && k.Value != nil {
									return strings.Trim(k.Value.ExactString(), `"`), ""
								}
							}
						}
					}
				}
			}
			return "", "client-go typed client for " + kind + " has no Resource(\"…\") call"
		}
	}
	return "", "the API group chosen (" + group.Method + ") has no typed client for the kind of package " + pkg + ": wrong group"
}

#!/bin/bash
# usage: ROUND_DIR=SEED3 ROUND_TAG=r3 confirm_round.sh C04 [C12 ...]  -- confirms /tmp/seed/<id>/${ROUND_DIR:-SEED2}/{1,2,3}; the demo's package directory is derived from its package clause
for id in "$@"; do
 for n in 1 2 3; do
  s=/tmp/seed/$id/${ROUND_DIR:-SEED2}/$n
  [ -f $s/patch.diff ] || continue
  f=$(ls $s/demo/*.go | head -1)
  pk=$(grep -m1 -E "^package " $f | awk '{print $2}' | sed 's/_test$//')
  case "$pk" in
   kcache) dest=. ;;
   client|join|filter|nsname) dest=$pk ;;
   *) dest=types/$pk ;;
  esac
  echo "##### $id-${ROUND_TAG:-r2}-$n dest=$dest"
  python3 /verif/tools/confirm_seed.py $s $id-${ROUND_TAG:-r2}-$n --dest "$dest" 2>&1 | tail -16
 done
done

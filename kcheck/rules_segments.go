package main

// Path-segment versions of T-ONCE and T-WAIT.  The intraprocedural data-flow
// versions in rules_actor.go are exact on the original code shape but lose
// the connection between a helper's return value and what the helper did
// (`if !s.handle(evt) { break loop }` where handle() called
// ShutdownInitiated).  Here the function is cut at its loop headers into
// acyclic segments walked with helper inlining (so such returns fold to
// constants), and counts / must-facts are propagated over the segment graph.
// Used as a second opinion: an obligation fails only if both versions fail.

import (
	"fmt"
	"sort"
	"strings"

	"golang.org/x/tools/go/ssa"
)

type segPath struct {
	from *ssa.BasicBlock // nil = function entry
	p    *Path
}

func actorSegments(c *Ctx, fn *ssa.Function) ([]segPath, bool) {
	loops := findLoops(fn)
	// a main loop moved into a private helper is walked across the call (Loop.Via)
	var inner []*Loop
	var hoisted *ssa.Function
	if ml := mainLoop(fn); ml != nil && ml.Via != nil {
		hoisted = ml.fn()
		for _, l := range findLoops(hoisted) {
			l.Via = ml.Via
			inner = append(inner, l)
		}
	}
	stops := map[*ssa.BasicBlock]bool{}
	for _, l := range loops {
		stops[l.Header] = true
	}
	for _, l := range inner {
		stops[l.Header] = true
	}
	newWalker := func() *Walker {
		w := &Walker{P: c.P}
		if hoisted != nil {
			w.Inline = autoInline(c.P, fn, 60)
			w.Inline[hoisted] = true
		}
		return w
	}
	var out []segPath
	w := newWalker()
	for _, p := range w.Run(fn, fn.Blocks[0], stops) {
		out = append(out, segPath{nil, p})
	}
	trunc := w.Truncated
	for _, l := range loops {
		w := newWalker()
		for _, p := range w.Run(fn, l.Header, stops) {
			out = append(out, segPath{l.Header, p})
		}
		trunc = trunc || w.Truncated
	}
	for _, l := range inner {
		w := newWalker()
		for _, p := range w.runVia(fn, l, stops) {
			out = append(out, segPath{l.Header, p})
		}
		trunc = trunc || w.Truncated
	}
	c.paths += len(out)
	for _, sp := range out {
		if sp.p.End.Kind == "cycle" {
			return out, false
		}
	}
	return out, !trunc
}

func initsOnPath(p *Path, lcField string) int {
	n := 0
	for _, e := range p.Effects {
		if e.Kind == "invoke" && e.Method == "ShutdownInitiated" && e.Recv != nil && e.Recv.IsField(lcField) {
			n++
		}
	}
	return n
}

// onceBySegments: every return is reached with exactly one ShutdownInitiated.
func onceBySegments(c *Ctx, fn *ssa.Function, lcPath string) (bool, string) {
	lcField := lcPath
	if i := strings.LastIndex(lcPath, "."); i >= 0 {
		lcField = lcPath[i+1:]
	}
	segs, ok := actorSegments(c, fn)
	if !ok {
		return false, "segments not analysable"
	}
	counts := map[*ssa.BasicBlock]int{nil: 1} // bitset {0,1,2+}
	bad := ""
	for changed := true; changed; {
		changed = false
		for _, sp := range segs {
			in, seen := counts[sp.from]
			if !seen {
				continue
			}
			k := initsOnPath(sp.p, lcField)
			out := 0
			for bit := 0; bit < 3; bit++ {
				if in&(1<<bit) != 0 {
					n := bit + k
					if n > 2 {
						n = 2
					}
					out |= 1 << n
				}
			}
			switch sp.p.End.Kind {
			case "stop":
				if counts[sp.p.End.Block]|out != counts[sp.p.End.Block] {
					counts[sp.p.End.Block] |= out
					changed = true
				}
			case "return":
				if out&1 != 0 {
					bad = "a path returns without ShutdownInitiated()"
				}
				if out&4 != 0 {
					bad = "a path calls ShutdownInitiated() twice"
				}
			}
		}
	}
	return bad == "", bad
}

func termKeyOf(t *Term) string {
	if p, ok := t.FieldPath(); ok {
		return p
	}
	return t.Key()
}

func factsOfPath(p *Path, lcField string, upto int) map[string]bool {
	f := map[string]bool{}
	for i, e := range p.Effects {
		if upto >= 0 && i >= upto {
			break
		}
		switch {
		case e.Kind == "invoke" && e.Method == "ShutdownInitiated" && e.Recv.IsField(lcField):
			f["INIT"] = true
		case e.Kind == "invoke" && e.Method == "Close":
			f["CLOSED:"+termKeyOf(e.Recv)] = true
		case e.Kind == "invoke" && (e.Method == "Stop" || e.Method == "stop"):
			f["STOPPED:"+termKeyOf(e.Recv)] = true
		case e.Kind == "dyncall" && e.Recv != nil && e.Recv.K == "extract" && e.Recv.S == "1" && e.Recv.A[0].K == "call" && strings.HasSuffix(e.Recv.A[0].S, "WithCancel"):
			f["CANCELLED"] = true
		case e.Kind == "select" && e.Arm >= 0 && e.Sel[e.Arm].Send == nil:
			// chosen receive arm on X.Events() with ok == false on this path
			ch := e.Sel[e.Arm].Chan
			if ch.K == "invoke" && ch.S == "Events" {
				for _, l := range p.Lits {
					if l.T.K == "selok" && !l.Val && sameTerm(l.T.A[0], e.Res) {
						f["EVCLOSED:"+termKeyOf(ch.A[0])] = true
					}
				}
			}
		}
	}
	return f
}

// waitsBySegments: every join-wait has a justification on every path.
func waitsBySegments(c *Ctx, fn *ssa.Function, lcPath string, kids childTable) map[ssa.Instruction]string {
	lcField := lcPath
	if i := strings.LastIndex(lcPath, "."); i >= 0 {
		lcField = lcPath[i+1:]
	}
	res := map[ssa.Instruction]string{} // wait (receive instruction) -> "" if justified on every path, else reason
	segs, ok := actorSegments(c, fn)
	if !ok {
		return nil
	}
	facts := map[*ssa.BasicBlock]map[string]bool{nil: {}}
	for changed := true; changed; {
		changed = false
		for _, sp := range segs {
			in, seen := facts[sp.from]
			if !seen || sp.p.End.Kind != "stop" {
				continue
			}
			out := map[string]bool{}
			for k := range in {
				out[k] = true
			}
			for k := range factsOfPath(sp.p, lcField, -1) {
				out[k] = true
			}
			cur, have := facts[sp.p.End.Block]
			if !have {
				facts[sp.p.End.Block] = out
				changed = true
				continue
			}
			for k := range cur {
				if !out[k] {
					delete(cur, k)
					changed = true
				}
			}
		}
	}
	actorType := ""
	if fn.Signature.Recv() != nil {
		actorType = typeNameOf(fn.Signature.Recv().Type())
	}
	for _, sp := range segs {
		in, seen := facts[sp.from]
		if !seen {
			continue
		}
		for i, e := range sp.p.Effects {
			if e.Kind != "recv" {
				continue
			}
			target := ""
			var tt *Term
			if e.Addr.K == "invoke" && (e.Addr.S == "Done" || e.Addr.S == "done") {
				tt = e.Addr.A[0]
				target = termKeyOf(tt)
			} else if e.Addr.K == "phi" || e.Addr.K == "extract" {
				target = e.Addr.Key()
			} else {
				continue
			}
			fs := map[string]bool{}
			for k := range in {
				fs[k] = true
			}
			for k := range factsOfPath(sp.p, lcField, i) {
				fs[k] = true
			}
			field := target
			if j := strings.LastIndex(target, "."); j >= 0 {
				field = target[j+1:]
			}
			okw := fs["CLOSED:"+target] || fs["STOPPED:"+target] || fs["EVCLOSED:"+target] ||
				fs["INIT"] && kids[actorType][field] ||
				fs["CANCELLED"] && strings.Contains(target, "session") ||
				fs["INIT"] && strings.Contains(target, "donech")
			key := e.In
			if !okw {
				var have []string
				for k := range fs {
					have = append(have, k)
				}
				sort.Strings(have)
				res[key] = fmt.Sprintf("facts on a path to the wait: %v", have)
			} else if _, bad := res[key]; !bad {
				res[key] = ""
			}
		}
	}
	return res
}

package main

// Join rules (C09): construction shape of the generated joins, resource
// release in package join, no Close on parameters.

import (
	"fmt"
	"go/token"
	"go/types"
	"strings"

	"golang.org/x/tools/go/ssa"
)

// isClosable: T has Close() and Done() methods.
func isClosable(t types.Type) bool {
	ms := types.NewMethodSet(t)
	hasClose, hasDone := false, false
	for i := 0; i < ms.Len(); i++ {
		switch ms.At(i).Obj().Name() {
		case "Close":
			hasClose = true
		case "Done":
			hasDone = true
		}
	}
	return hasClose && hasDone
}

// acquisitionType: v is a call whose result is (closable, error).
func acquisitionOf(v ssa.Value) bool {
	if v == nil {
		return false
	}
	tup, ok := v.Type().(*types.Tuple)
	if !ok || tup.Len() != 2 {
		return false
	}
	if n, ok := tup.At(1).Type().(*types.Named); !ok || n.Obj().Name() != "error" {
		return false
	}
	return isClosable(tup.At(0).Type())
}

func joinFunctions(c *Ctx) []*ssa.Function {
	var out []*ssa.Function
	for _, f := range c.P.SrcFuncs("join") {
		if f.Parent() == nil {
			out = append(out, f)
		}
	}
	return out
}

// checkJoinRelease: T-RELEASE over every top-level function of package join.
func checkJoinRelease(c *Ctx) {
	rule := "T-RELEASE(join)"
	n := 0
	for _, fn := range joinFunctions(c) {
		c.useFn(fn)
		ps := pathsOf(c, fn)
		name := fnName(fn)
		type verdict struct {
			ok  bool
			why string
			pos string
		}
		res := map[string]*verdict{}
		for _, pa := range ps {
			if pa.End.Kind != "return" {
				continue
			}
			// value held by each local alloc at the end of the path
			held := func(t *Term) *Term {
				if t != nil && t.K == "alloc" {
					if v, ok := pa.State.mem[t.Key()]; ok {
						return v
					}
				}
				return t
			}
			var returned []*Term
			for _, r := range pa.End.Results {
				returned = append(returned, r)
			}
			for _, e := range pa.Effects {
				if e.Kind != "call" && e.Kind != "invoke" {
					continue
				}
				if e.Res == nil || !acquisitionOf(e.Res.V) {
					continue
				}
				// only when the acquisition succeeded on this path
				errNil, known := false, false
				for _, l := range pa.Lits {
					if x, ok := isNilTest(l.T); ok && x.K == "extract" && x.S == "1" && sameTerm(x.A[0], e.Res) {
						errNil, known = l.Val, true
					}
				}
				if known && !errNil {
					continue
				}
				val := &Term{K: "extract", S: "0", A: []*Term{e.Res}}
				label := ""
				if e.Fn != nil {
					label = fnName(e.Fn)
				} else {
					label = e.Method
				}
				if i := strings.LastIndex(label, ":"); i >= 0 {
					label = label[i+1:]
				}
				key := name + "/" + label + "()-result"
				v := res[key]
				if v == nil {
					v = &verdict{ok: true, pos: c.P.instrPos(e.In)}
					res[key] = v
				}
				released := ""
				for _, r := range returned {
					if sameTerm(r, val) {
						released = "returned"
					}
				}
				for _, e2 := range pa.Effects {
					if e2.Kind == "invoke" && e2.Method == "Close" && sameTerm(held(e2.Recv), val) {
						released = "closed"
					}
					if e2.Kind == "go" && e2.Fn != nil && e2.Fn.Blocks != nil {
						// tie: the goroutine waits for Done() of the returned value, then closes this one
						cl := e2.Fn
						bind := map[string]*Term{} // name of the body's free variable or parameter -> value bound
						if e2.Recv != nil && e2.Recv.K == "closure" {
							for i, fv := range cl.FreeVars {
								if i < len(e2.Recv.A) {
									bind[fv.Name()] = held(e2.Recv.A[i])
								}
							}
						} else {
							for i, pr := range cl.Params {
								if i < len(e2.Args) {
									bind[pr.Name()] = held(e2.Args[i])
								}
							}
						}
						bound := func(x *Term) *Term {
							switch {
							case x == nil:
								return nil
							case x.K == "load" && len(x.A) == 1 && x.A[0].K == "freevar":
								return bind[x.A[0].S]
							case x.K == "freevar" || x.K == "param":
								return bind[x.S]
							}
							return nil
						}
						cps := (&Walker{P: c.P}).FuncRegion(cl)
						c.paths += len(cps)
						if len(cps) == 1 {
							waited := false
							for _, ce := range cps[0].Effects {
								if ce.Kind == "recv" && ce.Addr.K == "invoke" && ce.Addr.S == "Done" {
									if b := bound(ce.Addr.A[0]); b != nil {
										for _, r := range returned {
											if sameTerm(r, b) {
												waited = true
											}
										}
									}
								}
								if ce.Kind == "invoke" && ce.Method == "Close" && waited {
									if b := bound(ce.Recv); b != nil && sameTerm(b, val) {
										released = "tied to the result's Done()"
									}
								}
							}
						}
					}
				}
				if released == "" {
					v.ok = false
					v.why = fmt.Sprintf("on the path returning (%s) the %s obtained from %s() is neither returned, closed, nor closed by a goroutine waiting for the returned value's Done(): it and everything it started keep running on the long-lived base controllers", termList(pa.End.Results), "object", label)
				}
			}
		}
		for key, v := range res {
			n++
			c.check(v.ok, rule, key, v.pos, "released on every exit", v.why)
		}
	}
	c.floor(rule, 18, "8 generated joins x 2 acquisitions + IngressPods x 2")
}

func termList(ts []*Term) string {
	var s []string
	for _, t := range ts {
		k := t.Key()
		if len(k) > 60 {
			k = k[:60] + "…"
		}
		s = append(s, k)
	}
	return strings.Join(s, ", ")
}

// checkJoinNoCloseOfParams: nothing in package join closes a value it was handed.
func checkJoinNoCloseOfParams(c *Ctx) {
	rule := "T-WHO(join-Close)"
	n := 0
	for _, f := range c.P.SrcFuncs("join") {
		root := f
		for root.Parent() != nil {
			root = root.Parent()
		}
		params := map[string]bool{}
		for _, p := range root.Params {
			params[p.Name()] = true
		}
		for _, b := range f.Blocks {
			for _, in := range b.Instrs {
				cc, _ := callCommonOf(in)
				if cc == nil || methodName(cc) != "Close" {
					continue
				}
				n++
				c.sites++
				p := valPath(recvValue(cc))
				if params[p] && root.Object() != nil && !root.Object().Exported() {
					// a private helper (or a goroutine it starts) closing the helper's parameter closes
					// whatever the helper's callers pass: judge the arguments
					var par *ssa.Parameter
					for _, rp := range root.Params {
						if rp.Name() == p {
							par = rp
						}
					}
					if par != nil {
						handed := false
						sites := c.P.callersOf(root)
						for _, site := range sites {
							ci, okc := site.In.(ssa.CallInstruction)
							idx := -1
							for i, fp := range root.Params {
								if fp == par {
									idx = i
								}
							}
							if !okc || site.Kind == "value" || idx < 0 || idx >= len(ci.Common().Args) {
								handed = true
								continue
							}
							arg := ci.Common().Args[idx]
							if ld, okl := arg.(*ssa.UnOp); okl && ld.Op == token.MUL {
								arg = storedValue(ld.X)
							}
							croot := site.Fn
							for croot.Parent() != nil {
								croot = croot.Parent()
							}
							for _, cp := range croot.Params {
								if cp.Name() == valPath(arg) {
									handed = true
								}
							}
							if _, isParam := arg.(*ssa.Parameter); isParam {
								handed = true
							}
						}
						c.check(!handed && len(sites) > 0, rule, fnName(f)+"/Close-on-"+p, c.P.instrPos(in), "closes an object the join created (judged at the helper's call sites)", fnName(f)+" closes its parameter "+p+", and a call site passes a controller handed in by the caller: closing or failing to build a join must leave the source and destination controllers running")
						continue
					}
				}
				c.check(!params[p], rule, fnName(f)+"/Close-on-"+p, c.P.instrPos(in), "closes an object the join created", fnName(f)+" closes "+p+", a controller handed in by the caller: closing or failing to build a join must leave the source and destination controllers running")
			}
		}
	}
	c.check(n >= 2, rule, "join/Close-sites", "-", fmt.Sprintf("%d Close call sites", n), fmt.Sprintf("found %d Close call sites in package join (18 on the pinned tree; a shared helper may reduce them, none at all means the rule lost its anchor)", n))
}

// checkGeneratedJoinShape: construction shape of every <X><Y>sWith function.
func checkGeneratedJoinShape(c *Ctx) {
	rule := "T-FLOW(join)"
	count := 0
	for _, fn := range joinFunctions(c) {
		if !strings.HasSuffix(fn.Name(), "With") || len(fn.Params) != 4 {
			continue
		}
		count++
		name := fnName(fn)
		pos := c.P.fnPos(fn)
		ps := pathsOf(c, fn)
		srcP, dstP, filtP := fn.Params[1].Name(), fn.Params[2].Name(), fn.Params[3].Name()
		var okPath *Path
		for _, pa := range ps {
			if pa.End.Kind == "return" && len(pa.End.Results) == 2 && pa.End.Results[1].IsNil() {
				okPath = pa
			}
		}
		if okPath == nil {
			c.fail(rule, name+"/success-path", pos, "no path returning (result, nil)")
			continue
		}
		c.ok(rule, name+"/no-Refilter-on-construction-path", pos, "refilters only from monitor callbacks")
		// result is dstController.CloneForFilter()
		r := okPath.End.Results[0]
		isClone := r.K == "extract" && r.S == "0" && r.A[0].K == "invoke" && r.A[0].S == "CloneForFilter" && isParamT(r.A[0].A[0], dstP)
		c.check(isClone, rule, name+"/result-is-dst.CloneForFilter()", pos, "", name+" does not return the for-filter clone of its destination (the join would not be a deferred, refilterable view)")
		// handler slots
		slots := map[string]*Term{}
		var monitorSrc *Term
		for _, e := range okPath.Effects {
			if e.Kind == "invoke" && strings.HasPrefix(e.Method, "On") && len(e.Args) == 1 {
				slots[e.Method] = e.Args[0]
			}
			if e.Kind == "call" && e.Fn != nil && e.Fn.Name() == "NewMonitor" && len(e.Args) == 2 {
				monitorSrc = e.Args[0]
			}
			if e.Kind == "invoke" && e.Method == "Refilter" {
				c.fail(rule, name+"/no-Refilter-on-construction-path", c.P.instrPos(e.In), name+" refilters on its straight-line construction path: the join could become ready before its source is")
			}
			// … nor by calling one of its own handler closures directly
			if (e.Kind == "call" || e.Kind == "dyncall") && e.Fn != nil && e.Fn.Parent() == fn && closureRefilters(e.Fn) {
				c.fail(rule, name+"/no-Refilter-on-construction-path", c.P.instrPos(e.In), name+" invokes its refiltering handler "+fnName(e.Fn)+" on its straight-line construction path (not from a monitor callback): a filter computed from a source that is not ready yet makes the join ready over the wrong content")
			}
		}
		// … nor from a goroutine the join starts (its lifetime tie): only a monitor callback, which
		// runs after the source is ready and in event order, may compute and install a filter
		for _, gb := range goBodiesOf(fn) {
			c.sites++
			c.check(!closureRefilters(gb.Fn), rule, name+"/no-Refilter-from-a-goroutine/"+spawnName(c.P, gb.Fn), c.P.instrPos(gb.Go), "the join's goroutine only ties lifetimes",
				name+" starts a goroutine ("+fnName(gb.Fn)+") that refilters the join: a refilter that does not come from a monitor callback can make the join ready before its source is, or install a selection computed from a source that is gone")
		}
		for _, s := range []string{"OnInitialize", "OnCreate", "OnUpdate", "OnDelete"} {
			c.check(slots[s] != nil && slots[s].K == "closure", rule, name+"/handler-slot-"+s, pos, "", name+" does not register a handler for "+s+": source changes of that kind would not update the join")
		}
		c.check(monitorSrc != nil && isParamT(monitorSrc, srcP), rule, name+"/monitor-on-source", pos, "", name+" does not monitor its source controller")
		// closures: bindings
		held := func(t *Term) *Term {
			if t != nil && t.K == "alloc" {
				if v, ok := okPath.State.mem[t.Key()]; ok {
					return v
				}
			}
			return t
		}
		checkClosure := func(slot string, ct *Term, wantFromCache bool) {
			if ct == nil || ct.K != "closure" || ct.Fn == nil {
				return
			}
			cl := ct.Fn
			c.useFn(cl)
			bind := map[string]*Term{}
			for i, fv := range cl.FreeVars {
				if i < len(ct.A) {
					bind[fv.Name()] = held(ct.A[i])
				}
			}
			cps := (&Walker{P: c.P}).FuncRegion(cl)
			c.paths += len(cps)
			ok, detail := true, ""
			refilters := 0
			for _, pa := range cps {
				var listCall *Term
				errNil, known := false, false
				for _, e := range pa.Effects {
					if e.Kind == "invoke" && e.Method == "List" {
						listCall = e.Res
						// srcController.Cache().List()
						rc, _, okc := isInvoke(e.Recv, "Cache")
						if !okc || !(rc.K == "load" && rc.A[0].K == "freevar" && bind[rc.A[0].S] != nil && isParamT(bind[rc.A[0].S], srcP)) {
							ok, detail = false, "lists something other than the source controller's cache"
						}
					}
				}
				if listCall != nil {
					for _, l := range pa.Lits {
						if x, okk := isNilTest(l.T); okk && x.K == "extract" && x.S == "1" && sameTerm(x.A[0], listCall) {
							errNil, known = l.Val, true
						}
					}
				}
				for _, e := range pa.Effects {
					if e.Kind == "invoke" && e.Method == "Refilter" {
						refilters++
						rcv := e.Recv
						if !(rcv.K == "load" && rcv.A[0].K == "freevar" && bind[rcv.A[0].S] != nil && sameTerm(bind[rcv.A[0].S], r)) {
							ok, detail = false, "Refilter is not applied to the join result"
						}
						a := e.Args[0]
						if !(a.K == "dyncall" && a.A[0].K == "load" && a.A[0].A[0].K == "freevar" && bind[a.A[0].A[0].S] != nil && isParamT(bind[a.A[0].A[0].S], filtP)) {
							ok, detail = false, "the new filter is not computed by the join's filter function"
						} else {
							arg := a.A[1]
							if sp, isSpread := arg, arg.K == "spread"; isSpread {
								arg = sp.A[0]
							}
							if wantFromCache {
								if !(listCall != nil && arg.K == "extract" && arg.S == "0" && sameTerm(arg.A[0], listCall)) {
									ok, detail = false, "the filter is not rebuilt from the full current source cache"
								}
								if known && !errNil {
									ok, detail = false, "refilters although listing the source failed"
								}
							} else if arg.K != "param" {
								ok, detail = false, "the initial filter is not built from the objects given to OnInitialize"
							}
						}
					}
				}
				if wantFromCache && listCall == nil {
					ok, detail = false, "does not list the source cache"
				}
				if wantFromCache && known && errNil {
					n := 0
					for _, e := range pa.Effects {
						if e.Kind == "invoke" && e.Method == "Refilter" {
							n++
						}
					}
					if n != 1 {
						ok, detail = false, "does not refilter exactly once after a successful list"
					}
				}
			}
			if refilters == 0 {
				ok, detail = false, "never refilters the join"
			}
			c.check(ok, rule, name+"/"+slot+"-handler-refilters-from-source", c.P.fnPos(cl), "", name+" "+slot+" handler: "+detail)
		}
		checkClosure("OnInitialize", slots["OnInitialize"], false)
		for _, s := range []string{"OnCreate", "OnUpdate", "OnDelete"} {
			checkClosure(s, slots[s], true)
		}
	}
	c.check(count >= 8, rule, "join/generated-joins", "-", fmt.Sprintf("%d generated joins", count), fmt.Sprintf("found %d <Src><Dst>sWith joins, hand-confirmed 8", count))
	// wrappers in join.go: XPods(ctx, src, dst) = XPodsWith(ctx, src, dst, <src package>.PodsFilter)
	wr := 0
	for _, fn := range joinFunctions(c) {
		if strings.HasSuffix(fn.Name(), "With") || fn.Name() == "IngressPods" || len(fn.Params) != 3 {
			continue
		}
		ps := pathsOf(c, fn)
		if len(ps) != 1 || len(ps[0].End.Results) != 2 {
			continue
		}
		wr++
		call := ps[0].End.Results[0]
		ok := call.K == "extract" && call.A[0].K == "call" && call.A[0].S == "join:"+fn.Name()+"With"
		if ok {
			a := call.A[0].A
			ok = len(a) == 4 && isParamT(a[0], fn.Params[0].Name()) && isParamT(a[1], fn.Params[1].Name()) && isParamT(a[2], fn.Params[2].Name()) && a[3].K == "func"
			if ok {
				// the filter function lives in the package of the source controller's type
				srcPkg := ""
				if n, okn := fn.Params[1].Type().(*types.Named); okn && n.Obj().Pkg() != nil {
					srcPkg = n.Obj().Pkg().Path()
				}
				ok = a[3].Fn != nil && a[3].Fn.Pkg != nil && a[3].Fn.Pkg.Pkg.Path() == srcPkg && (a[3].Fn.Name() == "PodsFilter" || a[3].Fn.Name() == "ServicesFilter")
			}
		}
		c.check(ok, rule, fnName(fn)+"/delegates-with-source-package-filter", c.P.fnPos(fn), "", fnName(fn)+" does not delegate to "+fn.Name()+"With with its own arguments and the selection filter of the source's package")
	}
	c.check(wr >= 8, rule, "join/wrappers", "-", fmt.Sprintf("%d wrappers", wr), "fewer than the 8 join wrappers found")
	// IngressPods = ServicePods over the services selected by IngressServices (not over the base
	// service controller), on the caller's pod controller
	if fn := c.mustFunc("join", "IngressPods"); fn != nil && len(fn.Params) == 4 {
		ok, detail := false, "no path returns a pods join"
		for _, pa := range pathsOf(c, fn) {
			var svcs *Term
			for _, e := range pa.Effects {
				if e.Kind != "call" || e.Fn == nil {
					continue
				}
				switch fnName(e.Fn) {
				case "join:IngressServices":
					svcs = &Term{K: "extract", S: "0", A: []*Term{e.Res}}
					if len(e.Args) != 3 || !isParamT(e.Args[0], fn.Params[0].Name()) || !isParamT(e.Args[1], fn.Params[1].Name()) || !isParamT(e.Args[2], fn.Params[2].Name()) {
						detail = "IngressServices is not given (ctx, the ingress controller, the service controller)"
						svcs = nil
					}
				case "join:ServicePods":
					ok = true
					a1 := e.Args[1]
					for a1.K == "makeiface" || a1.K == "convert" || a1.K == "changeiface" {
						a1 = a1.A[0]
					}
					if svcs == nil || len(e.Args) != 3 || !sameTerm(a1, svcs) || !isParamT(e.Args[0], fn.Params[0].Name()) || !isParamT(e.Args[2], fn.Params[3].Name()) {
						ok, detail = false, "ServicePods is not given (ctx, the services selected by IngressServices, the caller's pod controller): "+termList(e.Args)
					}
				}
			}
			if ok {
				break
			}
		}
		c.check(ok, rule, "join:IngressPods/pods-of-the-selected-services", c.P.fnPos(fn), "", "IngressPods: "+detail)
	}
}

// closureRefilters: the closure (or a closure it calls) invokes Refilter.
func closureRefilters(f *ssa.Function) bool {
	for _, b := range f.Blocks {
		for _, in := range b.Instrs {
			if cc, _ := callCommonOf(in); cc != nil {
				if methodName(cc) == "Refilter" {
					return true
				}
				if g := cc.StaticCallee(); g != nil && g.Parent() != nil && g != f && closureRefilters(g) {
					return true
				}
			}
		}
	}
	return false
}

package main

// publisher / _subscription tables and the in-order-exactly-once structure (C05).

import (
	"fmt"
	"go/token"
	"go/types"
	"strings"

	"golang.org/x/tools/go/ssa"
)

func checkSubscriptionTable(c *Ctx) {
	fn := c.mustFunc("", "_subscription.run")
	if fn == nil {
		return
	}
	rule := "T-TABLE(_subscription.run)"
	pos := c.P.fnPos(fn)
	loop := mainLoop(fn)
	if loop == nil {
		c.undecided(rule, "_subscription.run/shape", pos, "no actor loop found")
		return
	}
	paths := (&Walker{P: c.P, Inline: autoInline(c.P, fn, 12)}).IterRegion(fn, loop)
	armOf := func(pa *Path) (string, *Effect) {
		for _, e := range pa.Effects {
			if e.Kind == "select" && e.Blocking {
				ch := e.Sel[e.Arm].Chan
				switch {
				case ch.K == "invoke" && ch.S == "ShutdownRequest" && ch.A[0].IsRecvField("lc"):
					return "shutdown", e
				case ch.IsRecvField("inch"):
					return "in", e
				}
				return "?" + ch.Key(), e
			}
		}
		return "?", nil
	}
	ts := &tableSpec{
		Rule: rule, Region: "one iteration of _subscription.run",
		Atoms: []atomSpec{{"arm", []string{"shutdown", "in"}}},
		Extra: func(pa *Path) map[string][]string { a, _ := armOf(pa); return map[string][]string{"arm": {a}} },
		Lit:   func(pa *Path, l Lit) litClass { return litClass{} },
		Outcome: func(pa *Path) ([]string, string) {
			arm, sel := armOf(pa)
			if strings.HasPrefix(arm, "?") {
				return nil, "unknown arm " + arm
			}
			rv := selRecvTerm(sel)
			var out []string
			for _, e := range pa.Effects {
				switch e.Kind {
				case "select":
					if e.Blocking {
						continue
					}
					if len(e.Sel) == 1 && e.Sel[0].Send != nil && e.Sel[0].Chan.IsRecvField("outch") && sameTerm(e.Sel[0].Send, rv) {
						out = append(out, "outch<-evt[nonblocking]")
					} else {
						out = append(out, "select-nonblocking(OTHER)")
					}
				case "send":
					out = append(out, "BLOCKING-send("+e.Addr.Key()+")")
				case "recv":
					out = append(out, "BLOCKING-receive("+e.Addr.Key()+")")
				case "invoke":
					switch {
					case e.IsPure():
					case e.Method == "ShutdownInitiated" && e.Recv.IsRecvField("lc"):
						if sameTerm(e.Args[0], rv) {
							out = append(out, "initiate(request-error)")
						} else {
							out = append(out, "initiate(OTHER)")
						}
					case e.Method == "ShutdownCompleted":
					default:
						return nil, "unexpected call: " + e.String()
					}
				case "go":
					return nil, "goroutine spawned on the event path: " + e.String()
				case "rundefers", "defer":
				case "call", "dyncall":
					if !e.IsPure() {
						return nil, "unexpected call: " + e.String()
					}
				default:
					return nil, "unexpected effect: " + e.String()
				}
			}
			if pa.End.Kind == "return" {
				out = append(out, "exit")
			} else if pa.End.Kind != "stop" {
				return nil, "path ends in " + pa.End.Kind
			}
			return out, ""
		},
		Expected: func(v map[string]string) [][]string {
			if v["arm"] == "shutdown" {
				return [][]string{{"initiate(request-error)", "exit"}}
			}
			return [][]string{{"outch<-evt[nonblocking]"}}
		},
	}
	c.runTable(ts, "_subscription.run", pos, paths)
	// prelude: defer ShutdownCompleted; defer close(outch)
	pre := (&Walker{P: c.P}).PreludeRegion(fn, loop)
	c.paths += len(pre)
	okk := len(pre) == 1
	if okk {
		hasClose := false
		for _, e := range pre[0].Effects {
			if e.Kind == "defer" && e.Method == "close" && len(e.Args) == 1 && e.Args[0].IsRecvField("outch") {
				hasClose = true
			}
		}
		okk = hasClose
	}
	c.check(okk, rule, "_subscription.run/defer-close(outch)", pos, "", "_subscription.run does not defer close(s.outch): Events() would never close after shutdown")
	// send(): select { inch <- ev ; <-ShuttingDown }
	if sf := c.mustFunc("", "_subscription.send"); sf != nil {
		ps := (&Walker{P: c.P}).FuncRegion(sf)
		c.paths += len(ps)
		ok := len(ps) >= 2
		for _, pa := range ps {
			seenMain, polledStopping := false, false
			for _, e := range pa.Effects {
				if e.Kind == "select" {
					if !e.Blocking {
						// a guard clause polling the own stopping channel is fine
						if len(e.Sel) == 1 && e.Sel[0].Send == nil && e.Sel[0].Chan.K == "invoke" && e.Sel[0].Chan.S == "ShuttingDown" && e.Sel[0].Chan.A[0].IsRecvField("lc") {
							if e.Arm >= 0 {
								polledStopping = true
							}
							continue
						}
						ok = false
						continue
					}
					if len(e.Sel) != 2 {
						ok = false
						continue
					}
					var hasSend, hasStop bool
					for _, s := range e.Sel {
						if s.Send != nil && s.Chan.IsRecvField("inch") && s.Send.K == "param" {
							hasSend = true
						}
						if s.Send == nil && s.Chan.K == "invoke" && s.Chan.S == "ShuttingDown" && s.Chan.A[0].IsRecvField("lc") {
							hasStop = true
						}
					}
					if !hasSend || !hasStop {
						ok = false
					}
					seenMain = true
				} else if !e.IsPure() && e.Kind != "rundefers" {
					ok = false
				}
			}
			if !seenMain {
				// only after having seen the subscription stopping, and only to say so
				notRunning := pa.End.Kind == "return" && len(pa.End.Results) == 1 && termContains(pa.End.Results[0], func(x *Term) bool {
					return (x.K == "load" || x.K == "global") && strings.Contains(x.Key(), "ErrNotRunning")
				})
				if !polledStopping || !notRunning {
					ok = false
				}
			}
		}
		c.check(ok, rule, "_subscription.send/hand-off-or-stopping", c.P.fnPos(sf), "", "_subscription.send is not `select { inch <- ev ; <-lc.ShuttingDown() }`")
	}
}

func checkPublisherTable(c *Ctx) {
	fn := c.mustFunc("", "publisher.run")
	if fn == nil {
		return
	}
	rule := "T-TABLE(publisher.run)"
	pos := c.P.fnPos(fn)
	loop := mainLoop(fn)
	if loop == nil {
		c.undecided(rule, "publisher.run/shape", pos, "no actor loop found")
		return
	}
	inl := autoInline(c.P, fn, 12)
	inlineOwnedLoopHelpers(c.P, fn, loop, inl) // the post-loop drain may live in a helper
	paths := (&Walker{P: c.P, Inline: inl}).IterRegion(fn, loop)
	isParent := func(t *Term) bool { return t.IsRecvField("parent") }
	armOf := func(pa *Path) (string, *Effect) {
		for _, e := range pa.Effects {
			if e.Kind == "select" && e.Blocking {
				ch := e.Sel[e.Arm].Chan
				switch {
				case ch.K == "invoke" && ch.S == "Events" && isParent(ch.A[0]):
					return "event", e
				case ch.IsRecvField("subscribech"):
					return "subscribe", e
				case ch.IsRecvField("unsubscribech"):
					return "unsubscribe", e
				}
				return "?" + ch.Key(), e
			}
		}
		return "?", nil
	}
	ts := &tableSpec{
		Rule: rule, Region: "one iteration of publisher.run",
		Atoms: []atomSpec{{"arm", []string{"event", "subscribe", "unsubscribe"}}, {"ok", boolDom}, {"drained", boolDom}},
		Extra: func(pa *Path) map[string][]string { a, _ := armOf(pa); return map[string][]string{"arm": {a}} },
		Lit: func(pa *Path, l Lit) litClass {
			if l.T.K == "selok" {
				return litClass{Atom: "ok", IfTrue: []string{"T"}, OK: true}
			}
			// drain loop guard: 0 < len(s.subscriptions)
			if l.T.K == "binop" && l.T.S == "<" && l.T.A[0].Key() == "0" && l.T.A[1].K == "len" && l.T.A[1].A[0].IsRecvField("subscriptions") {
				return litClass{Atom: "drained", IfTrue: []string{"F"}, OK: true}
			}
			return litClass{}
		},
		Outcome: func(pa *Path) ([]string, string) {
			arm, sel := armOf(pa)
			if strings.HasPrefix(arm, "?") {
				return nil, "unknown arm " + arm
			}
			rv := selRecvTerm(sel)
			var out []string
			first := true
			for _, e := range pa.Effects {
				switch e.Kind {
				case "select":
					if first && e.Blocking {
						first = false
						continue
					}
					return nil, "second select in one publisher step"
				case "call":
					if e.IsPure() {
						continue
					}
					switch fnName(e.Fn) {
					case "publisher.distributeEvent":
						if len(e.Args) == 2 && sameTerm(e.Args[1], rv) {
							out = append(out, "distributeEvent(evt)")
						} else {
							out = append(out, "distributeEvent(OTHER)")
						}
					case "publisher.createSubscription":
					default:
						return nil, "unexpected call: " + e.String()
					}
				case "send":
					if arm == "subscribe" && sameTerm(e.Addr, rv) && e.Val.K == "call" && e.Val.S == "publisher.createSubscription" {
						out = append(out, "reply(createSubscription())")
					} else {
						return nil, "unexpected send: " + e.String()
					}
				case "mapdelete":
					if e.Addr.IsRecvField("subscriptions") && sameTerm(e.Args[0], rv) && arm == "unsubscribe" {
						out = append(out, "delete(subscriptions,sub)")
					} else {
						out = append(out, "delete(OTHER)")
					}
				case "recv":
					switch {
					case e.Addr.IsRecvField("unsubscribech"):
						out = append(out, "drain(unsubscribech)")
					case e.Addr.K == "invoke" && e.Addr.S == "Done" && isParent(e.Addr.A[0]):
						out = append(out, "wait(parent.Done)")
					default:
						return nil, "unexpected receive: " + e.String()
					}
				case "invoke":
					switch {
					case e.IsPure():
					case e.Method == "Events" && isParent(e.Recv):
					case e.Method == "ShutdownInitiated" && e.Recv.IsRecvField("lc"):
						out = append(out, "initiate")
					case e.Method == "ShutdownCompleted":
					default:
						return nil, "unexpected call: " + e.String()
					}
				case "go":
					return nil, "goroutine spawned on the event path: " + e.String()
				case "rundefers", "defer":
				default:
					return nil, "unexpected effect: " + e.String()
				}
			}
			switch pa.End.Kind {
			case "return":
				out = append(out, "exit")
			case "cycle":
				out = append(out, "drain-loop")
			case "stop":
			default:
				return nil, "path ends in " + pa.End.Kind
			}
			return out, ""
		},
		Expected: func(v map[string]string) [][]string {
			switch v["arm"] {
			case "event":
				if v["ok"] == "T" {
					return [][]string{{"distributeEvent(evt)"}}
				}
				if v["drained"] == "T" {
					return [][]string{{"initiate", "wait(parent.Done)", "exit"}}
				}
				return [][]string{{"initiate", "drain(unsubscribech)", "delete(OTHER)", "drain-loop"}}
			case "subscribe":
				return [][]string{{"reply(createSubscription())"}}
			case "unsubscribe":
				return [][]string{{"delete(subscriptions,sub)"}}
			}
			return nil
		},
	}
	ts.AllowCycle = true // the drain loop after the main loop
	c.runTable(ts, "publisher.run", pos, paths)
}

// checkRangeMapDeliver: fn is `for k := range recv.<field> { deliver(k) }`:
// one range over the map field, no early exit, exactly one delivery per key.
func checkRangeMapDeliver(c *Ctx, rule string, fn *ssa.Function, field string, isDelivery func(e *Effect, key *Term) (bool, string)) {
	pos := c.P.fnPos(fn)
	name := fnName(fn)
	loops := findLoops(fn)
	if len(loops) != 1 {
		c.fail(rule, name+"/single-range", pos, fmt.Sprintf("expected one range loop, found %d", len(loops)))
		return
	}
	l := loops[0]
	paths := (&Walker{P: c.P}).LoopRegion(fn, l)
	c.paths += len(paths)
	okk, detail := true, ""
	iters := 0
	for _, pa := range paths {
		var more, known bool
		var next *Term
		for _, lit := range pa.Lits {
			t := lit.T
			if t.K == "extract" && t.S == "0" && t.A[0].K == "next" && t.A[0].A[0].K == "range" && t.A[0].A[0].A[0].IsRecvField(field) {
				more, known, next = lit.Val, true, t.A[0]
			}
			// other conditions (e.g. logging a failed send) are fine as long as every
			// path still delivers once and continues the loop
		}
		if !known {
			okk, detail = false, "loop is not a range over s."+field
			continue
		}
		if !more {
			continue
		}
		iters++
		if pa.End.Kind != "stop" || pa.End.Block != l.Header {
			okk, detail = false, "early exit from the fan-out loop: a failed or slow subscriber would cut off the remaining subscribers"
		}
		key := &Term{K: "extract", S: "1", A: []*Term{next}}
		n := 0
		for _, e := range pa.Effects {
			if e.IsPure() || e.Kind == "rundefers" {
				continue
			}
			d, why := isDelivery(e, key)
			if why != "" {
				okk, detail = false, why
			}
			if d {
				n++
			} else if why == "" {
				okk, detail = false, "unexpected effect in fan-out loop: "+e.String()
			}
		}
		if n != 1 {
			okk, detail = false, fmt.Sprintf("%d deliveries per subscriber (want exactly 1)", n)
		}
	}
	if iters == 0 {
		okk, detail = false, "no iteration path"
	}
	for _, b := range fn.Blocks {
		if l.Body[b] {
			continue
		}
		for _, in := range b.Instrs {
			switch in.(type) {
			case *ssa.Send, *ssa.Select, *ssa.Go:
				okk, detail = false, "channel operation / goroutine outside the fan-out loop"
			}
		}
	}
	c.check(okk, rule, name+"/each-subscriber-once", pos, "one range over s."+field+"; one delivery per key; no early exit", name+": "+detail)
}

func checkPublisherFanout(c *Ctx) {
	if fn := c.mustFunc("", "publisher.distributeEvent"); fn != nil {
		evtName := fn.Params[1].Name()
		checkRangeMapDeliver(c, "T-SHAPE(distribute)", fn, "subscriptions", func(e *Effect, key *Term) (bool, string) {
			if e.Kind == "invoke" && e.Method == "send" {
				if !sameTerm(e.Recv, key) {
					return false, "send() is called on " + e.Recv.Key() + ", not on the ranged subscription"
				}
				if len(e.Args) != 1 || !(e.Args[0].K == "param" && e.Args[0].S == evtName) {
					return false, "send() is not given the published event"
				}
				return true, ""
			}
			if e.Kind == "go" {
				return false, "goroutine spawned per delivery: ordering between events is lost"
			}
			return false, ""
		})
	}
	// createSubscription: built with the publisher's stop channel and the parent's Ready/Cache;
	// registered in the map; the returned value is the registered one.
	if fn := c.mustFunc("", "publisher.createSubscription"); fn != nil {
		rule := "T-FLOW(createSubscription)"
		paths := (&Walker{P: c.P}).FuncRegion(fn)
		c.paths += len(paths)
		ok, detail := len(paths) == 1, ""
		if ok {
			pa := paths[0]
			var sub *Term
			for _, e := range pa.Effects {
				if e.Kind == "call" && e.Fn != nil && fnName(e.Fn) == "newSubscription" {
					sub = e.Res
					a := e.Args
					if r, _, okk := isInvoke(a[1], "ShuttingDown"); !okk || !r.IsRecvField("lc") {
						detail = "the subscription is not given the publisher's own ShuttingDown() as stop channel: it would outlive its publisher"
					}
					if r, _, okk := isInvoke(a[2], "Ready"); !okk || !r.IsRecvField("parent") {
						detail = "the subscription's ready channel is not the parent's Ready()"
					}
					if r, _, okk := isInvoke(a[3], "Cache"); !okk || !r.IsRecvField("parent") {
						detail = "the subscription's cache is not the parent's Cache()"
					}
				}
			}
			if sub == nil {
				detail = "no newSubscription call"
			} else {
				reg := false
				gos := 0
				for _, e := range pa.Effects {
					if e.Kind == "mapupdate" && e.Addr.IsRecvField("subscriptions") && sameTerm(e.Args[0], sub) {
						reg = true
					}
					if e.Kind == "go" {
						gos++
					}
				}
				if !reg {
					detail = "the new subscription is not registered in s.subscriptions (events published after Subscribe returned would not reach it)"
				}
				if gos != 1 {
					detail = fmt.Sprintf("%d goroutines spawned (want the one unsubscribe watcher)", gos)
				}
				if len(pa.End.Results) != 1 || !sameTerm(pa.End.Results[0], sub) {
					detail = "the returned subscription is not the registered one"
				}
			}
			ok = detail == ""
		}
		c.check(ok, rule, "publisher.createSubscription/build-register-return", c.P.fnPos(fn), "", "createSubscription: "+detail)
	}
	// unsubscribe watcher: waits for sub.Done or ShuttingDown (then Close + wait), then sends exactly that sub on unsubscribech
	var watcher *subFunc
	if fn := c.P.Func("", "publisher.createSubscription"); fn != nil {
		watcher = pickSub(goBodiesOf(fn), func(s *subFunc) bool { return sendsOnField(s.Fn, "unsubscribech") })
		if watcher == nil {
			c.fail("T-FLOW(createSubscription)", "publisher.createSubscription/watcher/unsubscribes-its-own-subscription-once", c.P.fnPos(fn), "createSubscription starts no goroutine that reports the subscription's end on unsubscribech")
		}
	}
	if watcher != nil {
		cl := watcher.Fn
		c.useFn(cl)
		rule := "T-FLOW(createSubscription)"
		paths := (&Walker{P: c.P}).FuncRegion(cl)
		c.paths += len(paths)
		ok := len(paths) == 2
		for _, pa := range paths {
			sends := 0
			for _, e := range pa.Effects {
				switch e.Kind {
				case "send":
					sends++
					if !e.Addr.IsField("unsubscribech") {
						ok = false
					}
					// the value sent is the subscription created by createSubscription
					if sd, oks := e.In.(*ssa.Send); oks {
						o := watcher.outer(sd.X)
						if o == nil {
							ok = false
						} else if call, okc := storedValue(o).(*ssa.Call); !okc || call.Call.StaticCallee() == nil || fnName(call.Call.StaticCallee()) != "newSubscription" {
							ok = false
						}
					}
				case "go":
					ok = false
				}
			}
			if sends != 1 {
				ok = false
			}
		}
		c.check(ok, rule, "publisher.createSubscription/watcher/unsubscribes-its-own-subscription-once", c.P.fnPos(cl), "", "the unsubscribe watcher does not send exactly its own subscription once on unsubscribech")
	}
}

// checkEventPathSingleSender: T-CHAN/T-WHO for the event path channels and
// T-NOSPAWN for the event path functions.
func checkEventPathSingleSender(c *Ctx) {
	rule := "T-CHAN(single-sender)"
	// every send (Send instr or select send state) on a channel field, by (type,field)
	type site struct {
		fn string
		in ssa.Instruction
	}
	sends := map[string][]site{}
	for _, rel := range []string{""} {
		for _, f := range c.P.SrcFuncs(rel) {
			for _, b := range f.Blocks {
				for _, in := range b.Instrs {
					var chans []ssa.Value
					switch x := in.(type) {
					case *ssa.Send:
						chans = append(chans, x.Chan)
					case *ssa.Select:
						for _, s := range x.States {
							if s.Dir == types.SendOnly {
								chans = append(chans, s.Chan)
							}
						}
					}
					for _, ch := range chans {
						for _, key := range chanFieldKeys(c.P, ch, 0) {
							sends[key] = append(sends[key], site{fnName(f), in})
						}
					}
				}
			}
		}
	}
	want := map[string][]string{
		"_subscription.inch":       {"_subscription.send"},
		"_subscription.outch":      {"_subscription.run"},
		"filterSubscription.outch": {"filterSubscription.distributeEvents"},
		"_watchSession.outch":      {"_watchSession.run"},
	}
	for key, allowed := range want {
		okset := map[string]bool{}
		for _, a := range allowed {
			okset[a] = true
		}
		if len(sends[key]) == 0 {
			c.fail(rule, key+"/has-a-sender", "-", "no send on "+key+" found (anchor moved?)")
		}
		for _, s := range sends[key] {
			c.sites++
			owned := false
			for a := range okset {
				if f := c.P.Func("", s.fn); f != nil && c.P.ownedBy(f, "", runOfSender(a)) {
					owned = true
				}
			}
			c.check(okset[s.fn] || owned, rule, key+"/sent-in/"+s.fn, c.P.instrPos(s.in), "single sending function", key+" is also sent on from "+s.fn+": a second sender can reorder or duplicate events")
		}
	}
	// callers of send(): only the two distributors; callers of filterSubscription.distributeEvents: only its run
	for _, f := range c.P.SrcFuncs("") {
		for _, b := range f.Blocks {
			for _, in := range b.Instrs {
				var cc *ssa.CallCommon
				kind := "call"
				switch x := in.(type) {
				case *ssa.Call:
					cc = &x.Call
				case *ssa.Go:
					cc, kind = &x.Call, "go"
				case *ssa.Defer:
					cc, kind = &x.Call, "defer"
				}
				if cc == nil {
					continue
				}
				if cc.IsInvoke() && cc.Method.Name() == "send" && typeNameOf(cc.Value.Type()) == "subscription" {
					c.sites++
					n := fnName(f)
					c.check((n == "controller.distributeEvents" || n == "publisher.distributeEvent" || c.P.ownedBy(f, "", "controller.run") || c.P.ownedBy(f, "", "publisher.run")) && kind == "call", "T-WHO(send)", "subscription.send/called-in/"+n+"["+kind+"]", c.P.instrPos(in), "", "subscription.send is invoked ("+kind+") from "+n+": only the two distributors may hand events to a subscription, synchronously")
				}
				if g := cc.StaticCallee(); g != nil && fnName(g) == "filterSubscription.distributeEvents" {
					c.sites++
					c.check(c.P.ownedBy(f, "", "filterSubscription.run") && kind == "call", "T-WHO(send)", "filterSubscription.distributeEvents/called-in/"+fnName(f)+"["+kind+"]", c.P.instrPos(in), "", "filterSubscription.distributeEvents is used ("+kind+") outside the subscription's run loop")
				}
				if g := cc.StaticCallee(); g != nil && (fnName(g) == "controller.distributeEvents" || fnName(g) == "publisher.distributeEvent") {
					c.sites++
					owner := strings.Split(fnName(g), ".")[0] + ".run"
					c.check(c.P.ownedBy(f, "", owner) && kind == "call", "T-WHO(send)", fnName(g)+"/called-in/"+fnName(f)+"["+kind+"]", c.P.instrPos(in), "", fnName(g)+" is used ("+kind+") outside "+owner)
				}
			}
		}
	}
	// T-NOSPAWN on the event path
	for _, name := range []string{"controller.run", "controller.distributeEvents", "publisher.run", "publisher.distributeEvent", "_subscription.send", "_subscription.run", "filterSubscription.run", "filterSubscription.distributeEvents"} {
		f := c.mustFunc("", name)
		if f == nil {
			continue
		}
		n := 0
		for _, b := range f.Blocks {
			for _, in := range b.Instrs {
				if _, ok := in.(*ssa.Go); ok {
					n++
					c.fail("T-NOSPAWN(event-path)", name+"/go", c.P.instrPos(in), "goroutine started in "+name+": events handed to a spawned goroutine lose their order")
				}
			}
		}
		for h := range c.P.ownerClosure(f) {
			if h == f {
				continue
			}
			for _, b := range h.Blocks {
				for _, in := range b.Instrs {
					if g, ok := in.(*ssa.Go); ok && goCarriesEvents(g) {
						n++
						c.fail("T-NOSPAWN(event-path)", name+"/go-in-helper/"+fnName(h), c.P.instrPos(in), "goroutine started in "+fnName(h)+", a helper of "+name+": events handed to a spawned goroutine lose their order")
					}
				}
			}
		}
		if n == 0 {
			c.ok("T-NOSPAWN(event-path)", name+"/no-go", c.P.fnPos(f), "no go statement")
		}
	}
	// publisher.subscriptions confined to the run goroutine
	allowed := map[string]bool{"newPublisher": true, "publisher.run": true, "publisher.distributeEvent": true, "publisher.createSubscription": true}
	for _, a := range c.P.fieldAccesses("", "publisher", "subscriptions") {
		c.sites++
		n := fnName(a.Fn)
		c.check(allowed[n] || c.P.ownedBy(a.Fn, "", "publisher.run"), "T-CONFINE(publisher)", "publisher.subscriptions/accessed-in/"+n, c.P.instrPos(a.In), "", "publisher.subscriptions is accessed in "+n+", outside the publisher's run goroutine")
	}
	for _, n := range []string{"publisher.distributeEvent", "publisher.createSubscription"} {
		if f := c.P.Func("", n); f != nil {
			for _, cs := range c.P.callersOf(f) {
				c.check(c.P.ownedBy(cs.Fn, "", "publisher.run") && cs.Kind == "call", "T-CONFINE(publisher)", n+"/called-from/"+fnName(cs.Fn), c.P.instrPos(cs.In), "", n+" is used ("+cs.Kind+") in "+fnName(cs.Fn)+", outside publisher.run")
			}
		}
	}
	if f := c.P.Func("", "publisher.run"); f != nil {
		n := 0
		for _, cs := range c.P.callersOf(f) {
			if cs.Kind == "go" && fnName(cs.Fn) == "newPublisher" {
				n++
			} else {
				c.fail("T-CONFINE(publisher)", "publisher.run/started-by/"+fnName(cs.Fn), c.P.instrPos(cs.In), "publisher.run is invoked outside newPublisher's go statement")
			}
		}
		c.check(n == 1, "T-CONFINE(publisher)", "publisher.run/started-exactly-once", c.P.fnPos(f), "", fmt.Sprintf("publisher.run is started %d times", n))
	}
}

// runOfSender maps an allowed sending function to the run function of its goroutine.
func runOfSender(fn string) string {
	switch fn {
	case "_subscription.send":
		return "_subscription.send"
	case "filterSubscription.distributeEvents":
		return "filterSubscription.run"
	}
	return fn
}

// goCarriesEvents: the spawned call hands an event on (send()/callback
// directly, or a closure that sends on an Event channel / calls send()).
func goCarriesEvents(g *ssa.Go) bool {
	m := methodName(&g.Call)
	if m == "send" || strings.HasPrefix(m, "On") || m == "distributeEvents" || m == "distributeEvent" {
		return true
	}
	callee := g.Call.StaticCallee()
	if callee == nil || callee.Blocks == nil {
		return false
	}
	for _, b := range callee.Blocks {
		for _, in := range b.Instrs {
			switch x := in.(type) {
			case *ssa.Send:
				if strings.HasSuffix(typeStr(x.Chan.Type()), "Event") {
					return true
				}
			case *ssa.Select:
				for _, st := range x.States {
					if st.Dir == types.SendOnly && strings.HasSuffix(typeStr(st.Chan.Type()), "Event") {
						return true
					}
				}
			case *ssa.Call:
				if mm := methodName(&x.Call); mm == "send" || mm == "distributeEvents" || mm == "distributeEvent" {
					return true
				}
			}
		}
	}
	return false
}

// chanFieldKeys: the struct fields ("T.field") a channel value is read from — directly, or, for a
// parameter of a private function, at every call site (a field handed to a helper as an argument
// is still that field).
func chanFieldKeys(p *Prog, ch ssa.Value, depth int) []string {
	if depth > 3 {
		return nil
	}
	switch x := ch.(type) {
	case *ssa.UnOp:
		if fa, ok := x.X.(*ssa.FieldAddr); ok && x.Op == token.MUL {
			return []string{typeNameOf(fa.X.Type()) + "." + structFieldName(fa.X.Type(), fa.Field)}
		}
	case *ssa.ChangeType:
		return chanFieldKeys(p, x.X, depth+1)
	case *ssa.Phi:
		var out []string
		for _, e := range x.Edges {
			out = append(out, chanFieldKeys(p, e, depth+1)...)
		}
		return out
	case *ssa.Parameter:
		fn := x.Parent()
		if fn == nil || fn.Parent() != nil || fn.Object() == nil || fn.Object().Exported() {
			return nil
		}
		idx := -1
		for i, pr := range fn.Params {
			if pr == x {
				idx = i
			}
		}
		var out []string
		for _, site := range p.callersOf(fn) {
			ci, ok := site.In.(ssa.CallInstruction)
			if !ok || site.Kind == "value" || idx < 0 || idx >= len(ci.Common().Args) {
				continue
			}
			out = append(out, chanFieldKeys(p, ci.Common().Args[idx], depth+1)...)
		}
		return out
	}
	return nil
}

package main

// Generic actor discipline: lifecycle typestate (T-ONCE), blocking-operation
// inventory (T-BLOCK, classes K1..K9), join-wait justification (T-WAIT),
// goroutine inventory, channel capacities (T-CHAN).  Serves C12, C10, C11.

import (
	"fmt"
	"go/constant"
	"go/token"
	"go/types"
	"sort"
	"strings"

	"golang.org/x/tools/go/ssa"
)

// ---------- small SSA utilities ----------

// invokeName returns the method name if in is an interface-method call.
func callCommonOf(in ssa.Instruction) (*ssa.CallCommon, string) {
	switch x := in.(type) {
	case *ssa.Call:
		return &x.Call, "call"
	case *ssa.Go:
		return &x.Call, "go"
	case *ssa.Defer:
		return &x.Call, "defer"
	}
	return nil, ""
}

func methodName(cc *ssa.CallCommon) string {
	if cc.IsInvoke() {
		return cc.Method.Name()
	}
	if f := cc.StaticCallee(); f != nil && f.Signature.Recv() != nil {
		return f.Name()
	}
	return ""
}

// recvValue returns the receiver value of a method call (invoke or static).
func recvValue(cc *ssa.CallCommon) ssa.Value {
	if cc.IsInvoke() {
		return cc.Value
	}
	if f := cc.StaticCallee(); f != nil && f.Signature.Recv() != nil && len(cc.Args) > 0 {
		return cc.Args[0]
	}
	return nil
}

// valPath names a value: "recv.field", a phi/local name, or a call.
func valPath(v ssa.Value) string {
	switch x := v.(type) {
	case *ssa.UnOp:
		if x.Op == token.MUL {
			if fa, ok := x.X.(*ssa.FieldAddr); ok {
				return valPath(fa.X) + "." + structFieldName(fa.X.Type(), fa.Field)
			}
			if a, ok := x.X.(*ssa.Alloc); ok {
				return a.Comment
			}
			if fv, ok := x.X.(*ssa.FreeVar); ok {
				return fv.Name()
			}
		}
	case *ssa.Field:
		return valPath(x.X) + "." + structFieldName(x.X.Type(), x.Field)
	case *ssa.Parameter:
		return x.Name()
	case *ssa.FreeVar:
		return x.Name()
	case *ssa.Phi:
		return x.Comment
	case *ssa.Call:
		if f := x.Call.StaticCallee(); f != nil {
			return "call:" + fnName(f)
		}
		if x.Call.IsInvoke() {
			return valPath(x.Call.Value) + "." + x.Call.Method.Name() + "()"
		}
	case *ssa.Extract:
		return valPath(x.Tuple) + "#" + fmt.Sprint(x.Index)
	case *ssa.MakeInterface:
		return valPath(x.X)
	case *ssa.ChangeInterface:
		return valPath(x.X)
	case *ssa.ChangeType:
		return valPath(x.X)
	case *ssa.Alloc:
		return x.Comment
	}
	return v.Name()
}

func isLifecycleType(t types.Type) bool {
	for {
		if p, ok := t.(*types.Pointer); ok {
			t = p.Elem()
			continue
		}
		break
	}
	n, ok := t.(*types.Named)
	return ok && n.Obj().Pkg() != nil && strings.HasSuffix(n.Obj().Pkg().Path(), "go-lifecycle") && n.Obj().Name() == "Lifecycle"
}

// chanCall: v is the result of calling method `name` (invoke or static); returns receiver value.
func chanFromMethod(v ssa.Value) (recv ssa.Value, method string) {
	if c, ok := v.(*ssa.Call); ok {
		m := methodName(&c.Call)
		if m != "" {
			return recvValue(&c.Call), m
		}
	}
	return nil, ""
}

func constIntValue(v ssa.Value) (int64, bool) {
	c, ok := v.(*ssa.Const)
	if !ok || c.Value == nil || c.Value.Kind() != constant.Int {
		return 0, false
	}
	n, ok := constant.Int64Val(c.Value)
	return n, ok
}

// ---------- run functions ----------

type runInfo struct {
	fn       *ssa.Function
	lcPath   string // path of the lifecycle whose ShutdownCompleted is deferred ("" for the ticker)
	doneChan string // for actors that close a done channel instead
}

// findRunFuncs: functions that defer X.ShutdownCompleted() or close(recv.donech) in their entry block.
func findRunFuncs(p *Prog, rels []string) []*runInfo {
	var out []*runInfo
	for _, rel := range rels {
		for _, f := range p.SrcFuncs(rel) {
			if len(f.Blocks) == 0 {
				continue
			}
			for _, b := range f.Blocks {
				for _, in := range b.Instrs {
					d, ok := in.(*ssa.Defer)
					if !ok {
						continue
					}
					if methodName(&d.Call) == "ShutdownCompleted" && isLifecycleType(recvValue(&d.Call).Type()) {
						out = append(out, &runInfo{fn: f, lcPath: valPath(recvValue(&d.Call))})
					}
				}
			}
		}
	}
	sort.Slice(out, func(i, j int) bool { return fnName(out[i].fn) < fnName(out[j].fn) })
	return out
}

// ---------- T-ONCE ----------

// checkLifecycleOnce: in every run function, ShutdownCompleted is deferred in
// the entry block, and on every path to a return ShutdownInitiated has been
// called on the same lifecycle exactly once (0 leaves ShuttingDown() open for
// ever, 2 panics).  Forward data-flow over {0,1,2+}.
func checkLifecycleOnce(c *Ctx, runs []*runInfo) {
	rule := "T-ONCE(ShutdownInitiated)"
	for _, r := range runs {
		f := r.fn
		c.useFn(f)
		name := fnName(f)
		// defer in the entry block, before any return
		inEntry := false
		for _, in := range f.Blocks[0].Instrs {
			if d, ok := in.(*ssa.Defer); ok && methodName(&d.Call) == "ShutdownCompleted" {
				inEntry = true
			}
		}
		c.check(inEntry, rule, name+"/defer-ShutdownCompleted-first", c.P.fnPos(f), "", name+" does not defer ShutdownCompleted() in its entry block: an early return would leave Done() open")
		// dataflow: bitset of possible counts (bit0=0, bit1=1, bit2=2+)
		in := make([]int, len(f.Blocks))
		out := make([]int, len(f.Blocks))
		in[0] = 1
		transfer := func(b *ssa.BasicBlock, s int) int {
			for _, ins := range b.Instrs {
				cc, kind := callCommonOf(ins)
				if cc == nil || kind != "call" {
					continue
				}
				if methodName(cc) == "ShutdownInitiated" && isLifecycleType(recvValue(cc).Type()) && valPath(recvValue(cc)) == r.lcPath {
					n := 0
					if s&1 != 0 {
						n |= 2
					}
					if s&2 != 0 {
						n |= 4
					}
					if s&4 != 0 {
						n |= 4
					}
					s = n
				}
			}
			return s
		}
		changed := true
		for changed {
			changed = false
			for _, b := range f.Blocks {
				s := in[b.Index]
				for _, p := range b.Preds {
					s |= out[p.Index]
				}
				o := transfer(b, s)
				if s != in[b.Index] || o != out[b.Index] {
					in[b.Index], out[b.Index] = s, o
					changed = true
				}
			}
		}
		nret := 0
		for _, b := range f.Blocks {
			if len(b.Instrs) == 0 {
				continue
			}
			if _, ok := b.Instrs[len(b.Instrs)-1].(*ssa.Return); ok && (in[b.Index] != 0 || b.Index == 0) {
				nret++
				s := out[b.Index]
				key := fmt.Sprintf("%s/return@%s", name, b.Comment)
				switch {
				case s == 2:
					c.ok(rule, key, c.P.instrPos(b.Instrs[len(b.Instrs)-1]), "exactly once")
				default:
					// second opinion with helper inlining (path segments)
					if okSeg, why := onceBySegments(c, f, r.lcPath); okSeg {
						c.ok(rule, key, c.P.instrPos(b.Instrs[len(b.Instrs)-1]), "exactly once (decided on inlined path segments)")
					} else if s&1 != 0 {
						c.fail(rule, key, c.P.instrPos(b.Instrs[len(b.Instrs)-1]), name+" can return without ShutdownInitiated() on "+r.lcPath+" ("+why+"): ShuttingDown() stays open, every API call blocks instead of returning ErrNotRunning, parents waiting on Done() are released while the actor still looks alive")
					} else {
						c.fail(rule, key, c.P.instrPos(b.Instrs[len(b.Instrs)-1]), name+" can call ShutdownInitiated() twice on "+r.lcPath+" before returning ("+why+"): the second call panics")
					}
				}
			}
		}
		// inside loops: after ShutdownInitiated the function must not go round the loop again
		for _, l := range findLoops(f) {
			hs := in[l.Header.Index]
			// values flowing along back-edges
			back := 0
			for _, p := range l.Header.Preds {
				if l.Body[p] {
					back |= out[p.Index]
				}
			}
			_ = hs
			if !reachesInitiate(l.Header, r.lcPath) {
				continue
			}
			okLoop := back&^1 == 0
			if !okLoop {
				okLoop, _ = onceBySegments(c, f, r.lcPath)
			}
			c.check(okLoop, rule, fmt.Sprintf("%s/loop@%s-continues-only-uninitiated", name, l.Header.Comment), c.P.fnPos(f), "", name+" can continue its loop after ShutdownInitiated(): the next shutdown request would call it again and panic, and requests keep being served by a stopping actor")
		}
		if nret == 0 {
			c.fail(rule, name+"/has-return", c.P.fnPos(f), name+" has no reachable return")
		}
	}
}

func reachesInitiate(from *ssa.BasicBlock, lcPath string) bool {
	seen := map[*ssa.BasicBlock]bool{}
	stack := []*ssa.BasicBlock{from}
	for len(stack) > 0 {
		b := stack[len(stack)-1]
		stack = stack[:len(stack)-1]
		if seen[b] {
			continue
		}
		seen[b] = true
		for _, ins := range b.Instrs {
			if cc, kind := callCommonOf(ins); cc != nil && kind == "call" && methodName(cc) == "ShutdownInitiated" && valPath(recvValue(cc)) == lcPath {
				return true
			}
		}
		stack = append(stack, b.Succs...)
	}
	return false
}

// ---------- blocking inventory ----------

type blockSite struct {
	Fn    *ssa.Function
	In    ssa.Instruction
	Op    string // select | send | recv | call
	Class string // K1..K9 or ""
	Why   string
	Desc  string
}

// spawnName names a goroutine body by the function that starts it ("go@P") when it is a
// closure or a named function used only as the operand of go statements in one function; any
// other function keeps its own name.
func spawnName(p *Prog, f *ssa.Function) string {
	if f.Parent() != nil {
		par := f.Parent()
		for _, sf := range goBodiesOf(par) {
			if sf.Fn == f {
				return "go@" + fnName(par)
			}
		}
		return fnName(f)
	}
	cs := p.callersOf(f)
	var from *ssa.Function
	for _, s := range cs {
		if s.Kind != "go" || from != nil && s.Fn != from {
			return fnName(f)
		}
		from = s.Fn
	}
	if from != nil {
		return "go@" + fnName(from)
	}
	return fnName(f)
}

func inRels(p *Prog, f *ssa.Function, rels []string) bool {
	if f.Pkg == nil {
		return false
	}
	rel := strings.TrimPrefix(strings.TrimPrefix(f.Pkg.Pkg.Path(), modPath), "/")
	for _, r := range rels {
		if r == rel {
			return true
		}
	}
	return false
}

// K9: frozen exceptions, one named construct each, with reason.
var k9 = map[string]string{
	"go@publisher.createSubscription/send/s.unsubscribech": "counted drain: publisher.run receives exactly one unsubscribe per registered subscription (in its loop or in the post-loop drain) before it may return",
	"publisher.run/recv/s.unsubscribech":                   "counted drain: one message per registered subscription; every registered subscription's watcher sends once after the subscription is done, and every subscription is stopped by the publisher's ShuttingDown()",
}

func inLoop(f *ssa.Function, b *ssa.BasicBlock) bool {
	for _, l := range findLoops(f) {
		if l.Body[b] {
			return true
		}
	}
	return false
}

// makeChanCap resolves v to a MakeChan (through free variables of closures and
// single-store locals) and returns its constant capacity.
func makeChanCap(v ssa.Value, depth int) (int64, bool) {
	if depth > 4 {
		return 0, false
	}
	switch x := v.(type) {
	case *ssa.MakeChan:
		return constIntValue(x.Size)
	case *ssa.ChangeType:
		return makeChanCap(x.X, depth+1)
	case *ssa.MakeInterface:
		return makeChanCap(x.X, depth+1)
	case *ssa.UnOp:
		if x.Op == token.MUL {
			switch a := x.X.(type) {
			case *ssa.Alloc:
				return singleStoreCap(a, depth)
			case *ssa.FreeVar:
				// find binding in parent
				fn := a.Parent()
				par := fn.Parent()
				if par == nil {
					return 0, false
				}
				idx := -1
				for i, fv := range fn.FreeVars {
					if fv == a {
						idx = i
					}
				}
				for _, b := range par.Blocks {
					for _, in := range b.Instrs {
						if mc, ok := in.(*ssa.MakeClosure); ok && mc.Fn == fn && idx >= 0 && idx < len(mc.Bindings) {
							if al, ok := mc.Bindings[idx].(*ssa.Alloc); ok {
								return singleStoreCap(al, depth)
							}
							return makeChanCap(mc.Bindings[idx], depth+1)
						}
					}
				}
			}
		}
	case *ssa.Parameter:
		// a private function's parameter: the smallest capacity any call site passes
		fn := x.Parent()
		if curProg == nil || fn == nil || fn.Parent() != nil || (fn.Object() != nil && fn.Object().Exported()) {
			return 0, false
		}
		idx := -1
		for i, p := range fn.Params {
			if p == x {
				idx = i
			}
		}
		cs := curProg.callersOf(fn)
		if idx < 0 || len(cs) == 0 {
			return 0, false
		}
		best := int64(-1)
		for _, site := range cs {
			ci, ok := site.In.(ssa.CallInstruction)
			if !ok || site.Kind == "value" || idx >= len(ci.Common().Args) {
				return 0, false
			}
			n, ok := makeChanCap(ci.Common().Args[idx], depth+1)
			if !ok {
				return 0, false
			}
			if best < 0 || n < best {
				best = n
			}
		}
		return best, best >= 0
	case *ssa.FreeVar:
		fn := x.Parent()
		par := fn.Parent()
		if par == nil {
			return 0, false
		}
		idx := -1
		for i, fv := range fn.FreeVars {
			if fv == x {
				idx = i
			}
		}
		for _, b := range par.Blocks {
			for _, in := range b.Instrs {
				if mc, ok := in.(*ssa.MakeClosure); ok && mc.Fn == fn && idx >= 0 && idx < len(mc.Bindings) {
					return makeChanCap(mc.Bindings[idx], depth+1)
				}
			}
		}
	}
	return 0, false
}

func singleStoreCap(a *ssa.Alloc, depth int) (int64, bool) {
	var stores []*ssa.Store
	if a.Referrers() == nil {
		return 0, false
	}
	for _, r := range *a.Referrers() {
		if st, ok := r.(*ssa.Store); ok && st.Addr == a {
			stores = append(stores, st)
		}
	}
	if len(stores) != 1 {
		return 0, false
	}
	return makeChanCap(stores[0].Val, depth+1)
}

// derivedFromReceive: v is (a field of) a value received from a channel in
// this function (select receive slot or plain receive).
var curProg *Prog // set by loadProg; lets value-origin helpers look at call sites

func derivedFromReceive(v ssa.Value) bool {
	for i := 0; i < 6; i++ {
		switch x := v.(type) {
		case *ssa.Parameter:
			// a helper's parameter: every call site passes a value derived from a receive
			fn := x.Parent()
			if curProg == nil || fn == nil {
				return false
			}
			idx := -1
			for k, p := range fn.Params {
				if p == x {
					idx = k
				}
			}
			cs := curProg.callersOf(fn)
			if idx < 0 || len(cs) == 0 {
				return false
			}
			for _, s := range cs {
				call, ok := s.In.(*ssa.Call)
				if !ok || s.Kind != "call" || idx >= len(call.Call.Args) || !derivedFromReceive(call.Call.Args[idx]) {
					return false
				}
			}
			return true
		case *ssa.Extract:
			if _, ok := x.Tuple.(*ssa.Select); ok && x.Index >= 2 {
				return true
			}
			if u, ok := x.Tuple.(*ssa.UnOp); ok && u.Op == token.ARROW {
				return true
			}
			return false
		case *ssa.Field:
			v = x.X
		case *ssa.UnOp:
			if x.Op == token.ARROW {
				return true
			}
			if x.Op == token.MUL {
				if fa, ok := x.X.(*ssa.FieldAddr); ok {
					// field of a local copy of the received struct
					if al, ok := fa.X.(*ssa.Alloc); ok {
						for _, r := range *al.Referrers() {
							if st, ok := r.(*ssa.Store); ok && st.Addr == al {
								return derivedFromReceive(st.Val)
							}
						}
					}
				}
			}
			return false
		default:
			return false
		}
	}
	return false
}

func buildInventory(c *Ctx, rels []string, runs []*runInfo) []*blockSite {
	isRun := map[*ssa.Function]*runInfo{}
	for _, r := range runs {
		isRun[r.fn] = r
	}
	// the ticker's run: defer close(t.donech)
	tickerLike := map[*ssa.Function]bool{}
	for _, rel := range rels {
		for _, f := range c.P.SrcFuncs(rel) {
			for _, in := range f.Blocks[0].Instrs {
				if d, ok := in.(*ssa.Defer); ok {
					if bi, ok := d.Call.Value.(*ssa.Builtin); ok && bi.Name() == "close" && strings.HasSuffix(valPath(d.Call.Args[0]), ".donech") {
						tickerLike[f] = true
					}
				}
			}
		}
	}
	// private helpers that only ever run synchronously inside an actor's run function are
	// part of that actor (a loop moved into `serve()` is still the actor's loop)
	for _, rel := range rels {
		for _, f := range c.P.SrcFuncs(rel) {
			if isRun[f] == nil && !tickerLike[f] {
				continue
			}
			for g := range c.P.ownerClosure(f) {
				if g == f || isRun[g] != nil || tickerLike[g] {
					continue
				}
				if isRun[f] != nil {
					isRun[g] = isRun[f]
				} else {
					tickerLike[g] = true
				}
			}
		}
	}
	var sites []*blockSite
	for _, rel := range rels {
		for _, f := range c.P.SrcFuncs(rel) {
			for _, b := range f.Blocks {
				for _, in := range b.Instrs {
					switch x := in.(type) {
					case *ssa.Select:
						s := &blockSite{Fn: f, In: in, Op: "select"}
						var arms []string
						exitArm, stopArm := false, false
						for _, st := range x.States {
							d := "<-"
							if st.Dir == types.SendOnly {
								d = "send "
							}
							p := valPath(st.Chan)
							arms = append(arms, d+p)
							if st.Dir == types.SendOnly {
								continue
							}
							rv, m := chanFromMethod(st.Chan)
							switch {
							case m == "ShutdownRequest" && isLifecycleType(rv.Type()):
								exitArm = true
							case m == "ShuttingDown" && isLifecycleType(rv.Type()):
								stopArm = true
							case (m == "Done" || m == "done") && !isContextType(rv.Type()):
								// Done() of an actor or lifecycle; a context's Done() is not a stop signal of
								// the actor (Close() does not cancel the caller's context)
								exitArm, stopArm = true, true
							case m == "Events":
								exitArm = true // closed parent channel ends the loop (table rules check the !ok exit)
							case strings.HasSuffix(p, ".stopch") || strings.HasSuffix(p, ".donech") || p == "donech":
								exitArm, stopArm = true, true
							}
						}
						s.Desc = "select{" + strings.Join(arms, "; ") + "}"
						switch {
						case !x.Blocking:
							s.Class, s.Why = "K5", "non-blocking select"
						case (isRun[f] != nil || tickerLike[f]) && exitArm:
							s.Class, s.Why = "K1", "actor loop select with a shutdown/parent-closed arm"
						case isRun[f] == nil && !tickerLike[f] && stopArm:
							s.Class, s.Why = "K2", "request select guarded by the actor's stopping/done channel"
						}
						sites = append(sites, s)
					case *ssa.Send:
						s := &blockSite{Fn: f, In: in, Op: "send", Desc: "send " + valPath(x.Chan)}
						key := spawnName(c.P, f) + "/send/" + valPath(x.Chan)
						if cp, ok := makeChanCap(x.Chan, 0); ok && cp >= 1 {
							s.Class, s.Why = "K4", fmt.Sprintf("send on a channel made with capacity %d for a single message", cp)
						} else if derivedFromReceive(x.Chan) {
							s.Class, s.Why = "K4", "reply on the request's reply channel (every reply channel is made with capacity >= 1: rule T-CHAN(reply))"
						} else if why, ok := k9[key]; ok {
							s.Class, s.Why = "K9", why
						}
						sites = append(sites, s)
					case *ssa.UnOp:
						if x.Op != token.ARROW {
							continue
						}
						s := &blockSite{Fn: f, In: in, Op: "recv", Desc: "<-" + valPath(x.X)}
						key := fnName(f) + "/recv/" + valPath(x.X)
						if r := isRun[f]; r != nil && r.fn != f {
							key = fnName(r.fn) + "/recv/" + valPath(x.X) // private helper of the run function
						}
						rv, m := chanFromMethod(x.X)
						_ = rv
						switch {
						case func() bool { cp, ok := makeChanCap(x.X, 0); return ok && cp >= 1 }():
							s.Class, s.Why = "K3", "receive of the reply on a buffered channel made in this function"
						case m == "Done" || m == "done" || valPath(x.X) == "donech" || isRun[f] != nil && isDoneChanType(x.X.Type()):
							s.Class, s.Why = "K6", "join-wait (justified by T-WAIT)"
						case m == "Events" && x.CommaOk && inLoop(f, b):
							s.Class, s.Why = "K1", "range over the parent's event channel (ends when it closes)"
						default:
							if why, ok := k9[key]; ok {
								s.Class, s.Why = "K9", why
							}
						}
						sites = append(sites, s)
					default:
						cc, kind := callCommonOf(in)
						if cc == nil || kind == "defer" && methodName(cc) == "ShutdownCompleted" {
							continue
						}
						m := methodName(cc)
						rv := recvValue(cc)
						switch {
						case (m == "Shutdown" || m == "ShutdownAsync") && rv != nil && isLifecycleType(rv.Type()):
							s := &blockSite{Fn: f, In: in, Op: "call", Desc: valPath(rv) + "." + m + "()"}
							if strings.HasSuffix(valPath(rv), ".lc") && strings.Count(valPath(rv), ".") == 1 {
								s.Class, s.Why = "K7", "lifecycle request on the receiver's own lifecycle"
							}
							sites = append(sites, s)
						case cc.IsInvoke() && (m == "List" || m == "Watch") && (typeNameOf(cc.Value.Type()) == "ListClient" || typeNameOf(cc.Value.Type()) == "WatchClient" || typeNameOf(cc.Value.Type()) == "Client"):
							s := &blockSite{Fn: f, In: in, Op: "call", Desc: "client." + m + "(ctx)", Class: "K8", Why: "external call governed by a context cancelled on shutdown (flow checked by T-CTX)"}
							sites = append(sites, s)
						}
					}
				}
			}
		}
	}
	return sites
}

func isContextType(t types.Type) bool {
	n, ok := t.(*types.Named)
	return ok && n.Obj().Pkg() != nil && n.Obj().Pkg().Path() == "context" && n.Obj().Name() == "Context"
}

// isDoneChanType: chan struct{} in any direction (a pure completion signal).
func isDoneChanType(t types.Type) bool {
	ch, ok := t.Underlying().(*types.Chan)
	if !ok {
		return false
	}
	st, ok := ch.Elem().Underlying().(*types.Struct)
	return ok && st.NumFields() == 0
}

func checkBlockingInventory(c *Ctx, rels []string, runs []*runInfo, floor int) []*blockSite {
	rule := "T-BLOCK(inventory)"
	sites := buildInventory(c, rels, runs)
	counts := map[string]int{}
	perKey := map[string]int{}
	for _, s := range sites {
		c.sites++
		c.useFn(s.Fn)
		base := fnName(s.Fn) + "/" + s.Desc
		perKey[base]++
		key := base
		if perKey[base] > 1 {
			key = fmt.Sprintf("%s#%d", base, perKey[base])
		}
		if s.Class == "" {
			c.fail(rule, key, c.P.instrPos(s.In), "blocking operation "+s.Desc+" in "+fnName(s.Fn)+" falls in none of the justified classes K1..K9 (loop select with shutdown arm, request select with stopping arm, buffered reply send/receive, non-blocking select, justified join-wait, own-lifecycle call, context-governed external call): it can block forever, wedging this goroutine and everything that waits for it")
		} else {
			counts[s.Class]++
			c.ok(rule, key, c.P.instrPos(s.In), s.Class+": "+s.Why)
		}
	}
	var cs []string
	for _, k := range sortedKeys(counts) {
		cs = append(cs, fmt.Sprintf("%s=%d", k, counts[k]))
	}
	c.notes = append(c.notes, fmt.Sprintf("blocking inventory over %v: %d sites (%s)", rels, len(sites), strings.Join(cs, " ")))
	c.floor(rule, floor, "hand-confirmed inventory of DESIGN.md Appendix A")
	return sites
}

// checkReplyChannels: every channel made outside a constructor and handed to
// another goroutine as a reply/result channel has capacity >= 1, so the
// replier (K4) never blocks.
func checkReplyChannels(c *Ctx, rels []string) {
	rule := "T-CHAN(reply)"
	for _, rel := range rels {
		for _, f := range c.P.SrcFuncs(rel) {
			for _, b := range f.Blocks {
				for _, in := range b.Instrs {
					mc, ok := in.(*ssa.MakeChan)
					if !ok {
						continue
					}
					// does the channel itself travel? (sent over a channel, stored in a struct that is sent,
					// captured by a goroutine/timer closure that sends on it)
					travels := false
					var visit func(v ssa.Value, d int)
					visit = func(v ssa.Value, d int) {
						if d > 4 || v.Referrers() == nil {
							return
						}
						for _, r := range *v.Referrers() {
							switch x := r.(type) {
							case *ssa.Send:
								if x.X == v {
									travels = true
								}
							case *ssa.Select:
								for _, st := range x.States {
									if st.Send == v {
										travels = true
									}
								}
							case *ssa.Store:
								if x.Val == v {
									if al := addrRoot(x.Addr); al != nil {
										// local struct (request) or captured variable: follow loads of it
										if al.Referrers() != nil {
											for _, rr := range *al.Referrers() {
												if ld, ok := rr.(*ssa.UnOp); ok && ld.Op == token.MUL {
													visit(ld, d+1)
												}
												if mcl, ok := rr.(*ssa.MakeClosure); ok && closureSendsOn(mcl, al) {
													travels = true
												}
											}
										}
									}
								}
							case *ssa.ChangeType:
								visit(x, d+1)
							case *ssa.MakeInterface:
								visit(x, d+1)
							case *ssa.MakeClosure:
								if closureSendsOn(x, v) {
									travels = true
								}
							}
						}
					}
					visit(mc, 0)
					if !travels {
						continue
					}
					// constructors create the actor's long-lived request channels (unbuffered by design)
					if f.Parent() == nil && strings.HasPrefix(f.Name(), "new") {
						continue
					}
					c.sites++
					n, okc := constIntValue(mc.Size)
					key := fnName(f) + "/make(" + typeStr(mc.Type()) + ")"
					c.check(okc && n >= 1, rule, key, c.P.instrPos(mc), fmt.Sprintf("capacity %d", n),
						"reply/result channel made in "+fnName(f)+" is unbuffered: the actor answering on it blocks until the requester receives (a requester that gave up wedges the actor's loop)")
				}
			}
		}
	}
}

// closureSendsOn: the closure sends on the free variable bound to v.
func closureSendsOn(mc *ssa.MakeClosure, v ssa.Value) bool {
	fn, _ := mc.Fn.(*ssa.Function)
	if fn == nil {
		return true
	}
	for i, b := range mc.Bindings {
		if b != v || i >= len(fn.FreeVars) {
			continue
		}
		fv := fn.FreeVars[i]
		isFV := func(x ssa.Value) bool {
			if x == fv {
				return true
			}
			if u, ok := x.(*ssa.UnOp); ok && u.Op == token.MUL && u.X == fv {
				return true
			}
			return false
		}
		for _, bb := range fn.Blocks {
			for _, in := range bb.Instrs {
				switch x := in.(type) {
				case *ssa.Send:
					if isFV(x.Chan) {
						return true
					}
				case *ssa.Select:
					for _, st := range x.States {
						if st.Dir == types.SendOnly && isFV(st.Chan) {
							return true
						}
					}
				}
			}
		}
	}
	return false
}

// ---------- T-WAIT: join waits are justified ----------

// mustFacts computes, per instruction, the set of facts that hold on every
// path from the entry: INIT, CLOSED:x, STOPPED:x, CANCELLED, EVCLOSED:x.
type factSet map[string]bool

func (a factSet) clone() factSet {
	n := factSet{}
	for k := range a {
		n[k] = true
	}
	return n
}

func intersect(a, b factSet) factSet {
	n := factSet{}
	for k := range a {
		if b[k] {
			n[k] = true
		}
	}
	return n
}

func genFacts(in ssa.Instruction, lcPath string, s factSet) {
	cc, kind := callCommonOf(in)
	if cc == nil || kind != "call" {
		return
	}
	m := methodName(cc)
	rv := recvValue(cc)
	switch {
	case m == "ShutdownInitiated" && rv != nil && isLifecycleType(rv.Type()) && valPath(rv) == lcPath:
		s["INIT"] = true
	case m == "Close" && rv != nil:
		s["CLOSED:"+valPath(rv)] = true
	case (m == "Stop" || m == "stop") && rv != nil:
		s["STOPPED:"+valPath(rv)] = true
	case m == "" && !cc.IsInvoke() && cc.StaticCallee() == nil:
		// dynamic call of a context.CancelFunc obtained from WithCancel
		if ex, ok := cc.Value.(*ssa.Extract); ok && ex.Index == 1 {
			if call, ok := ex.Tuple.(*ssa.Call); ok {
				if g := call.Call.StaticCallee(); g != nil && g.Name() == "WithCancel" {
					s["CANCELLED"] = true
				}
			}
		}
	}
}

// evClosedOnEdge: block b is reached only through the false branch of the
// `ok` of a receive on X.Events(); returns X's path.
func evClosedOnEdge(pred, b *ssa.BasicBlock) string {
	if len(pred.Instrs) == 0 {
		return ""
	}
	ifi, ok := pred.Instrs[len(pred.Instrs)-1].(*ssa.If)
	if !ok || len(pred.Succs) != 2 {
		return ""
	}
	cond := ifi.Cond
	neg := false
	if u, ok := cond.(*ssa.UnOp); ok && u.Op == token.NOT {
		cond, neg = u.X, true
	}
	ex, ok := cond.(*ssa.Extract)
	if !ok || ex.Index != 1 {
		return ""
	}
	// which successor means ok == false?
	falseSucc := pred.Succs[1]
	if neg {
		falseSucc = pred.Succs[0]
	}
	if falseSucc != b {
		return ""
	}
	switch t := ex.Tuple.(type) {
	case *ssa.UnOp:
		if t.Op == token.ARROW {
			if rv, m := chanFromMethod(t.X); m == "Events" {
				return valPath(rv)
			}
		}
	case *ssa.Select:
		// find the arm this block belongs to: walk up single-pred chain to `index == k` test
		cur := pred
		for i := 0; i < 8 && cur != nil; i++ {
			if len(cur.Preds) != 1 {
				break
			}
			p := cur.Preds[0]
			if pi, ok := p.Instrs[len(p.Instrs)-1].(*ssa.If); ok {
				if bo, ok := pi.Cond.(*ssa.BinOp); ok && bo.Op == token.EQL && p.Succs[0] == cur {
					if e0, ok := bo.X.(*ssa.Extract); ok && e0.Tuple == t && e0.Index == 0 {
						if k, ok := constIntValue(bo.Y); ok && int(k) < len(t.States) {
							if rv, m := chanFromMethod(t.States[k].Chan); m == "Events" {
								return valPath(rv)
							}
							return ""
						}
					}
				}
			}
			cur = p
		}
	}
	return ""
}

func mustFactsAt(f *ssa.Function, lcPath string) map[ssa.Instruction]factSet {
	n := len(f.Blocks)
	in := make([]factSet, n)
	out := make([]factSet, n)
	visited := make([]bool, n)
	in[0] = factSet{}
	res := map[ssa.Instruction]factSet{}
	changed := true
	for iter := 0; changed && iter < 50; iter++ {
		changed = false
		for _, b := range f.Blocks {
			var s factSet
			if b.Index == 0 {
				s = factSet{}
			} else {
				first := true
				for _, p := range b.Preds {
					if !visited[p.Index] {
						continue
					}
					e := out[p.Index].clone()
					if x := evClosedOnEdge(p, b); x != "" {
						e["EVCLOSED:"+x] = true
					}
					if first {
						s, first = e, false
					} else {
						s = intersect(s, e)
					}
				}
				if first {
					continue
				}
			}
			cur := s.clone()
			for _, ins := range b.Instrs {
				res[ins] = cur.clone()
				genFacts(ins, lcPath, cur)
			}
			if !visited[b.Index] || len(cur) != len(out[b.Index]) {
				visited[b.Index] = true
				out[b.Index] = cur
				in[b.Index] = s
				changed = true
			}
		}
	}
	return res
}

// children of an actor: fields whose constructor received this actor's stop channel.
type childTable map[string]map[string]bool // actor type -> field -> true

func checkJoinWaits(c *Ctx, sites []*blockSite, runs []*runInfo, kids childTable) {
	rule := "T-WAIT(join)"
	runOf := map[*ssa.Function]*runInfo{}
	for _, r := range runs {
		runOf[r.fn] = r
	}
	facts := map[*ssa.Function]map[ssa.Instruction]factSet{}
	n := 0
	for _, s := range sites {
		if s.Class != "K6" {
			continue
		}
		n++
		f := s.Fn
		lcPath := ""
		if r := runOf[f]; r != nil {
			lcPath = r.lcPath
		}
		if facts[f] == nil {
			facts[f] = mustFactsAt(f, lcPath)
		}
		fs := facts[f][s.In]
		u := s.In.(*ssa.UnOp)
		target := ""
		if rv, _ := chanFromMethod(u.X); rv != nil {
			target = valPath(rv)
		} else {
			target = valPath(u.X)
		}
		why := ""
		actorType := ""
		if f.Signature.Recv() != nil {
			actorType = typeNameOf(f.Signature.Recv().Type())
		}
		field := target
		if i := strings.LastIndex(target, "."); i >= 0 {
			field = target[i+1:]
		}
		switch {
		case fs["CLOSED:"+target]:
			why = "Close() was called on " + target + " on every path to the wait"
		case fs["STOPPED:"+target]:
			why = "Stop() was called on " + target + " on every path to the wait"
		case fs["EVCLOSED:"+target]:
			why = target + "'s event channel was observed closed on every path to the wait"
		case fs["INIT"] && kids[actorType][field]:
			why = target + " was constructed with this actor's ShuttingDown() as stop channel, which ShutdownInitiated() has closed"
		case fs["CANCELLED"] && (target == "session" || strings.HasPrefix(target, "session")):
			why = "the context every session is derived from was cancelled (sessions watch their context)"
		case fs["INIT"] && target == "donech":
			why = "list worker: its context is cancelled once ShuttingDown() closes (rule T-SHAPE(_lister.list))"
		case fs["CLOSED:"+strings.TrimSuffix(target, ".Done()")]:
			why = "Close() was called on it"
		case isLifetimeTie(f, u):
			why = "lifetime tie: this goroutine exists to release resources when " + target + ", the object its parent function returns to the caller, is done"
		}
		key := fnName(f) + "/wait-for/" + target
		segFn, segLC := f, lcPath
		if lcPath == "" && f.Parent() == nil {
			// a private helper of a run function (the shutdown tail moved into `shutdown()`):
			// judge the wait on the run function's inlined path segments
			for _, r := range runs {
				if r.fn != f && c.P.ownerClosure(r.fn)[f] {
					segFn, segLC = r.fn, r.lcPath
				}
			}
		}
		if why == "" && segLC != "" {
			// second opinion on inlined path segments
			if seg := waitsBySegments(c, segFn, segLC, kids); seg != nil {
				if v, seen := seg[s.In]; seen && v == "" {
					why = "justified on every inlined path segment"
				}
			}
		}
		var have []string
		for k := range fs {
			have = append(have, k)
		}
		sort.Strings(have)
		c.check(why != "", rule, key, c.P.instrPos(s.In), why,
			fmt.Sprintf("%s waits for %s to finish, but on some path to this wait nothing has made it stop (facts that hold on every path: %v; need one of: Close/Stop on it, its event channel seen closed, or ShutdownInitiated() plus it being built with this actor's stop channel): the wait can block forever", fnName(f), target, have))
	}
	c.floor(rule, 9, "controller x3, lister x2, monitor x2, publisher, filterSubscription, watcher, createSubscription$1")
	_ = n
}

// ---------- goroutine inventory ----------

func checkGoroutineInventory(c *Ctx, rels []string, runs []*runInfo) {
	rule := "T-GO(inventory)"
	isRun := map[*ssa.Function]bool{}
	for _, r := range runs {
		isRun[r.fn] = true
	}
	n := 0
	for _, rel := range rels {
		for _, f := range c.P.SrcFuncs(rel) {
			idx := 0
			for _, b := range f.Blocks {
				for _, in := range b.Instrs {
					g, ok := in.(*ssa.Go)
					if !ok {
						continue
					}
					n++
					idx++
					c.sites++
					cc := &g.Call
					m := methodName(cc)
					callee := cc.StaticCallee()
					desc := ""
					okk := false
					why := ""
					switch {
					case callee != nil && isRun[callee]:
						desc, okk, why = fnName(callee), true, "actor run function (ends by T-ONCE/T-BLOCK)"
					case callee != nil && callee.Name() == "run" && callee.Signature.Recv() != nil:
						// ticker.run / typed subscription.run: checked by their own rules (donech / range over parent events)
						desc, okk, why = fnName(callee), true, "actor run function without lifecycle (closes its done/out channel on exit)"
					case cc.IsInvoke() && (m == "WatchContext" || m == "WatchChannel") && isLifecycleType(cc.Value.Type()):
						desc, okk, why = valPath(cc.Value)+"."+m, true, "lifecycle watcher: returns when the lifecycle's ShuttingDown() closes"
					case callee != nil && callee.Parent() != nil:
						desc, okk, why = fnName(callee), true, "closure: its blocking operations are classified in the inventory"
					case callee != nil && callee.Blocks != nil && inRels(c.P, callee, rels):
						desc, okk, why = fnName(callee), true, "named goroutine body of an analysed package: its blocking operations are classified in the inventory"
					default:
						if callee != nil {
							desc = fnName(callee)
						} else {
							desc = valPath(cc.Value) + "." + m
						}
					}
					c.check(okk, rule, fmt.Sprintf("%s/go#%d[%s]", fnName(f), idx, desc), c.P.instrPos(in), why,
						"goroutine of an unrecognised shape started in "+fnName(f)+": go "+desc+" — it is neither an actor run loop, a lifecycle watcher nor a closure whose blocking operations are all classified; nothing guarantees it ends with its actor")
				}
			}
		}
	}
	c.notes = append(c.notes, fmt.Sprintf("goroutine inventory over %v: %d go sites", rels, n))
}

// ---------- T-CTX: external calls are governed by a context cancelled on shutdown ----------

func checkExternalCallContexts(c *Ctx) {
	rule := "T-CTX(external)"
	// executeList(ctx): ctx parameter comes from list()'s WithCancel(l.ctx); canceller cancels on ShuttingDown (T-SHAPE(_lister.list))
	if fn := c.mustFunc("", "_lister.list"); fn != nil {
		// the goroutine that calls executeList gives it the ctx of list()'s own WithCancel
		ok := false
		worker := pickSub(goBodiesOf(fn), func(s *subFunc) bool { return len(callsNamed(s.Fn, "_lister.executeList")) > 0 })
		if worker != nil {
			c.useFn(worker.Fn)
			calls := callsNamed(worker.Fn, "_lister.executeList")
			if len(calls) == 1 && len(calls[0].Common().Args) == 2 {
				if o := worker.outer(calls[0].Common().Args[1]); o != nil && isWithCancelPart(storedValue(o), 0) {
					ok = true
				}
			}
		}
		c.check(ok, rule, "client.List/ctx-from-list()-WithCancel", c.P.fnPos(fn), "", "the context given to client.List is not the per-list cancellable context (cancelled by the canceller goroutine on ShuttingDown)")
	}
	// Watch: s.ctx from newWatchSession's WithCancel(ctx) — T-FLOW(watch-session); ctx argument of every newWatchSession call in _watcher.run derives from the watcher's WithCancel
	if fn := c.mustFunc("", "_watcher.run"); fn != nil {
		n, okk := 0, true
		for _, b := range fn.Blocks {
			for _, in := range b.Instrs {
				call, ok := in.(*ssa.Call)
				if !ok || call.Call.StaticCallee() == nil || fnName(call.Call.StaticCallee()) != "newWatchSession" {
					continue
				}
				n++
				ex, ok := call.Call.Args[0].(*ssa.Extract)
				good := false
				if ok && ex.Index == 0 {
					if wc, ok := ex.Tuple.(*ssa.Call); ok && wc.Call.StaticCallee() != nil && wc.Call.StaticCallee().Name() == "WithCancel" {
						good = true
					}
				}
				if !good {
					okk = false
					c.fail(rule, fmt.Sprintf("_watcher.run/newWatchSession#%d/ctx", n), c.P.instrPos(in), "a watch session is created with a context that the watcher's cancel() does not reach: at shutdown the watcher waits for a session whose connect/stream is never cancelled (Close() hangs)")
				} else {
					c.ok(rule, fmt.Sprintf("_watcher.run/newWatchSession#%d/ctx", n), c.P.instrPos(in), "ctx from the watcher's WithCancel")
				}
			}
		}
		_ = okk
		c.check(n >= 2, rule, "_watcher.run/newWatchSession-sites", c.P.fnPos(fn), fmt.Sprintf("%d sites", n), "expected the reset and retry session-creation sites")
	}
}

// checkConsumerBuffers (C10 rule 1): every send on a consumer-facing event
// buffer is non-blocking and the buffer has capacity EventBufsiz.
func checkConsumerBuffers(c *Ctx) {
	rule := "T-CHAN(consumer-buffer)"
	bufLit, _ := c.P.constLit("", "EventBufsiz")
	rels := append([]string{""}, typedRelsQuick(c)...)
	nsend, nmake := 0, 0
	for _, rel := range rels {
		for _, f := range c.P.SrcFuncs(rel) {
			for _, b := range f.Blocks {
				for _, in := range b.Instrs {
					switch x := in.(type) {
					case *ssa.Send:
						p := valPath(x.Chan)
						if strings.HasSuffix(p, ".outch") || p == "outch" {
							nsend++
							c.fail(rule, fnName(f)+"/blocking-send-on-"+p, c.P.instrPos(in), "blocking send on the consumer-facing buffer "+p+" in "+fnName(f)+": a consumer that stops reading blocks this actor and everything upstream of it")
						}
					case *ssa.Select:
						for _, st := range x.States {
							if st.Dir != types.SendOnly {
								continue
							}
							p := valPath(st.Chan)
							if strings.HasSuffix(p, ".outch") || p == "outch" {
								nsend++
								c.sites++
								c.check(!x.Blocking, rule, fnName(f)+"/nonblocking-send-on-"+p, c.P.instrPos(in), "select with default", "send on the consumer-facing buffer "+p+" in "+fnName(f)+" is part of a blocking select: a stalled consumer blocks this actor")
							}
						}
					case *ssa.MakeChan:
						// channels of Event made anywhere: those stored in an outch field or the watcher's outch local
						isEv := strings.HasSuffix(typeStr(x.Type()), "Event")
						if !isEv {
							continue
						}
						stored := ""
						for _, r := range *x.Referrers() {
							if st, ok := r.(*ssa.Store); ok {
								if fa, ok := st.Addr.(*ssa.FieldAddr); ok {
									stored = structFieldName(fa.X.Type(), fa.Field)
								}
							}
							if ph, ok := r.(*ssa.Phi); ok {
								stored = ph.Comment
							}
						}
						if stored != "outch" {
							continue
						}
						nmake++
						c.sites++
						n, ok := constIntValue(x.Size)
						c.check(ok && fmt.Sprint(n) == bufLit, rule, fnName(f)+"/make(outch,EventBufsiz)", c.P.instrPos(in), "capacity EventBufsiz", fmt.Sprintf("consumer-facing buffer made in %s has capacity %v instead of EventBufsiz (%s)", fnName(f), x.Size, bufLit))
					}
				}
			}
		}
	}
	c.check(nsend >= 5, rule, "consumer-buffer/send-sites", "-", fmt.Sprintf("%d send sites", nsend), fmt.Sprintf("found %d sends on consumer-facing buffers, hand-confirmed 5 (+1 per typed package)", nsend))
	c.check(nmake >= 5, rule, "consumer-buffer/make-sites", "-", fmt.Sprintf("%d make sites", nmake), fmt.Sprintf("found %d consumer-facing buffers, hand-confirmed 5", nmake))
}

// isLifetimeTie: f is a closure started with `go` by its parent, the wait is
// on Done() of a captured variable, and the parent returns that variable.
// derefCell: a captured variable is a cell; the value is what was stored into it.
func derefCell(v ssa.Value) ssa.Value {
	if u, ok := v.(*ssa.UnOp); ok && u.Op == token.MUL {
		return u.X
	}
	return v
}

// returnsValue: some return of fn yields v (or a load of the cell v, or of the cell v was loaded from).
func returnsValue(fn *ssa.Function, v ssa.Value) bool {
	for _, b := range fn.Blocks {
		r, ok := b.Instrs[len(b.Instrs)-1].(*ssa.Return)
		if !ok {
			continue
		}
		for _, res := range r.Results {
			x := stripIface(res)
			if x == v {
				return true
			}
			if ld, ok := x.(*ssa.UnOp); ok && ld.Op == token.MUL {
				if ld.X == v {
					return true
				}
				if lv, ok := v.(*ssa.UnOp); ok && lv.Op == token.MUL && lv.X == ld.X {
					return true
				}
			}
		}
	}
	return false
}

func stripIface(x ssa.Value) ssa.Value {
	for {
		switch y := x.(type) {
		case *ssa.MakeInterface:
			x = y.X
			continue
		case *ssa.ChangeInterface:
			x = y.X
			continue
		}
		return x
	}
}

func isLifetimeTie(f *ssa.Function, u *ssa.UnOp) bool {
	rv, m := chanFromMethod(u.X)
	if m != "Done" || rv == nil {
		return false
	}
	// every place that starts f: go statements on a closure, or on the named function
	var starts []*subFunc
	if par := f.Parent(); par != nil {
		for _, sf := range closuresOf(par) {
			if sf.Fn == f {
				if sf.Go == nil {
					return false
				}
				starts = append(starts, sf)
			}
		}
		if len(starts) == 0 {
			// a function literal that captures nothing is not a closure value: `go func(a, b){…}(x, y)`
			for _, sf := range goBodiesOf(par) {
				if sf.Fn == f {
					starts = append(starts, sf)
				}
			}
		}
	} else if curProg != nil {
		for _, site := range curProg.callersOf(f) {
			g, ok := site.In.(*ssa.Go)
			if !ok || site.Kind != "go" {
				return false
			}
			starts = append(starts, &subFunc{Fn: f, Go: g, Args: g.Call.Args})
		}
	}
	if len(starts) == 0 {
		return false
	}
	for _, sf := range starts {
		bound := sf.outer(rv)
		if bound == nil {
			return false
		}
		bound = stripIface(bound)
		// the spawning function returns the bound variable (or a load of it); when the spawner is a
		// private helper handed the value as a parameter (`closeWith(result, dep)`), its callers do
		par := sf.Go.Parent()
		if pv, ok := storedValue(derefCell(bound)).(*ssa.Parameter); ok && par.Parent() == nil && par.Object() != nil && !par.Object().Exported() && curProg != nil {
			idx := -1
			for i, fp := range par.Params {
				if fp == pv {
					idx = i
				}
			}
			sites := curProg.callersOf(par)
			if idx < 0 || len(sites) == 0 {
				return false
			}
			for _, site := range sites {
				call, ok := site.In.(*ssa.Call)
				if !ok || idx >= len(call.Call.Args) || !returnsValue(site.Fn, stripIface(call.Call.Args[idx])) {
					return false
				}
			}
			continue
		}
		returned := false
		for _, b := range par.Blocks {
			if r, ok := b.Instrs[len(b.Instrs)-1].(*ssa.Return); ok {
				for _, res := range r.Results {
					x := res
					for {
						switch y := x.(type) {
						case *ssa.MakeInterface:
							x = y.X
							continue
						case *ssa.ChangeInterface:
							x = y.X
							continue
						}
						break
					}
					if x == bound {
						returned = true
					}
					if ld, ok := x.(*ssa.UnOp); ok && ld.Op == token.MUL && ld.X == bound {
						returned = true
					}
					if ld, ok := bound.(*ssa.UnOp); ok && ld.Op == token.MUL {
						if l2, ok := x.(*ssa.UnOp); ok && l2.Op == token.MUL && l2.X == ld.X {
							returned = true
						}
					}
				}
			}
		}
		if !returned {
			return false
		}
	}
	return true
}

// checkCallersVTA (thorough tier): with the VTA call graph (interface and
// dynamic calls resolved by value-flow type analysis over the whole program),
// every caller of the listed functions lies in the allowed set.  This closes
// the gap the syntactic who-may rules leave for method values and dynamic calls.
func checkCallersVTA(c *Ctx) {
	rule := "T-WHO(vta)"
	targets := map[string][]string{
		"_cache.doSync":                       {"_cache.run", "_cache.doRefilter"},
		"_cache.doUpdate":                     {"_cache.run"},
		"_cache.doRefilter":                   {"_cache.run"},
		"_cache.doList":                       {"_cache.run"},
		"_subscription.send":                  {"controller.distributeEvents", "publisher.distributeEvent"},
		"filterSubscription.distributeEvents": {"filterSubscription.run"},
		"publisher.distributeEvent":           {"publisher.run"},
		"publisher.createSubscription":        {"publisher.run"},
		"controller.distributeEvents":         {"controller.run"},
		"handler.OnInitialize":                {"monitor.run"},
		"handler.OnCreate":                    {"monitor.run"},
		"handler.OnUpdate":                    {"monitor.run"},
		"handler.OnDelete":                    {"monitor.run"},
	}
	g := c.P.VTA()
	for name, allowed := range targets {
		f := c.P.Func("", name)
		if f == nil {
			c.undecided(rule, name, "-", "anchor function not found")
			continue
		}
		node := g.Nodes[f]
		ok := map[string]bool{}
		for _, a := range allowed {
			ok[a] = true
		}
		n := 0
		if node != nil {
			for _, e := range node.In {
				caller := e.Caller.Func
				if caller == nil || !inRepo(caller) && caller.Synthetic == "" {
					// callers outside the repository cannot exist for unexported functions; wrappers are followed below
				}
				cn := fnName(caller)
				// synthetic wrappers/bound-method closures: attribute to their callers
				if caller.Synthetic != "" {
					for _, e2 := range e.Caller.In {
						n++
						c2 := fnName(e2.Caller.Func)
						c.check(ok[c2], rule, name+"/called-via-wrapper-from/"+c2, c.P.instrPos(e2.Site), "", name+" is reachable (through "+caller.Synthetic+") from "+c2+", which is outside its owner's goroutine")
					}
					continue
				}
				n++
				c.check(ok[cn], rule, name+"/called-from/"+cn, c.P.instrPos(e.Site), "", name+" is called from "+cn+" according to the VTA call graph, outside its owner's goroutine")
			}
		}
		c.check(n >= 1, rule, name+"/has-callers", c.P.fnPos(f), fmt.Sprintf("%d call edges", n), name+" has no caller in the VTA call graph (anchor moved?)")
	}
}

// ---------- T-WAIT(graph): synchronous cross-actor calls form a DAG ----------

// requestAPIs: methods that block until the receiver's loop takes a request
// (a blocking select with a send on one of the receiver's channel fields) or
// until its lifecycle takes a shutdown request.
func requestAPIs(c *Ctx, rels []string) map[*ssa.Function]string {
	out := map[*ssa.Function]string{}
	for _, rel := range rels {
		for _, f := range c.P.SrcFuncs(rel) {
			if f.Signature.Recv() == nil || f.Parent() != nil {
				continue
			}
			owner := typeNameOf(f.Signature.Recv().Type())
			for _, b := range f.Blocks {
				for _, in := range b.Instrs {
					switch x := in.(type) {
					case *ssa.Select:
						if !x.Blocking {
							continue
						}
						for _, st := range x.States {
							if st.Dir == types.SendOnly && strings.HasPrefix(valPath(st.Chan), f.Params[0].Name()+".") {
								out[f] = owner
							}
						}
					case *ssa.Call:
						m := methodName(&x.Call)
						if (m == "Shutdown" || m == "ShutdownAsync") && recvValue(&x.Call) != nil && isLifecycleType(recvValue(&x.Call).Type()) {
							out[f] = owner
						}
					}
				}
			}
		}
	}
	return out
}

// implementorsOf: repository methods that an interface-method call may reach.
func implementorsOf(c *Ctx, iface *types.Interface, method string) []*ssa.Function {
	var out []*ssa.Function
	for _, rel := range c.P.repoRels() {
		sp := c.P.Pkg(rel)
		if sp == nil {
			continue
		}
		for _, m := range sp.Members {
			t, ok := m.(*ssa.Type)
			if !ok {
				continue
			}
			if _, isI := t.Type().Underlying().(*types.Interface); isI {
				continue
			}
			for _, T := range []types.Type{t.Type(), types.NewPointer(t.Type())} {
				if !types.Implements(T, iface) {
					continue
				}
				sel := c.P.SSA.MethodSets.MethodSet(T).Lookup(sp.Pkg, method)
				if sel == nil {
					// exported method: lookup with nil package
					sel = c.P.SSA.MethodSets.MethodSet(T).Lookup(nil, method)
				}
				if sel != nil {
					if fn := c.P.SSA.MethodValue(sel); fn != nil {
						out = append(out, fn)
					}
				}
				break
			}
		}
	}
	return out
}

func checkWaitForGraph(c *Ctx, runs []*runInfo) {
	rule := "T-WAIT(graph)"
	rels := []string{"", "join"}
	apis := requestAPIs(c, rels)
	// run functions by actor type
	type actor struct {
		name string
		run  *ssa.Function
	}
	var actors []actor
	for _, r := range runs {
		if r.fn.Parent() == nil && r.fn.Signature.Recv() != nil {
			actors = append(actors, actor{typeNameOf(r.fn.Signature.Recv().Type()), r.fn})
		}
	}
	if f := c.P.Func("", "_ticker.run"); f != nil {
		actors = append(actors, actor{"_ticker", f})
	}
	edges := map[string]map[string]string{} // A -> T -> witness
	for _, a := range actors {
		seen := map[*ssa.Function]bool{}
		var visit func(f *ssa.Function, depth int, via string)
		visit = func(f *ssa.Function, depth int, via string) {
			if f == nil || seen[f] || f.Blocks == nil || !inRepo(f) || depth > 12 {
				return
			}
			seen[f] = true
			if owner, ok := apis[f]; ok && f != a.run {
				if edges[a.name] == nil {
					edges[a.name] = map[string]string{}
				}
				if _, dup := edges[a.name][owner]; !dup {
					edges[a.name][owner] = via + " → " + fnName(f)
				}
				return // the call blocks here; what the callee's own goroutine does is that actor's business
			}
			for _, b := range f.Blocks {
				for _, in := range b.Instrs {
					call, ok := in.(*ssa.Call) // go/defer'd closures run elsewhere or at exit: only plain calls wait
					if !ok {
						if d, isDefer := in.(*ssa.Defer); isDefer {
							if g := d.Call.StaticCallee(); g != nil {
								visit(g, depth+1, via+" → "+fnName(g))
							}
						}
						continue
					}
					cc := &call.Call
					if g := cc.StaticCallee(); g != nil {
						visit(g, depth+1, via+" → "+fnName(g))
						continue
					}
					if cc.IsInvoke() {
						if isLifecycleType(cc.Value.Type()) || isLogType(cc.Value.Type()) {
							continue
						}
						iface, ok := cc.Value.Type().Underlying().(*types.Interface)
						if !ok {
							continue
						}
						for _, g := range implementorsOf(c, iface, cc.Method.Name()) {
							visit(g, depth+1, via+" → "+fnName(g))
						}
					}
				}
			}
		}
		visit(a.run, 0, fnName(a.run))
	}
	// self edges and cycles
	names := []string{}
	for _, a := range actors {
		names = append(names, a.name)
	}
	sort.Strings(names)
	for _, a := range names {
		for t, w := range edges[a] {
			c.check(t != a, rule, a+"→"+t, "-", "synchronous request: "+w, "actor "+a+" calls its own request API from its own goroutine ("+w+"): it waits for a loop iteration that can never happen")
		}
	}
	state := map[string]int{}
	var cyc []string
	var dfs func(n string, path []string)
	dfs = func(n string, path []string) {
		state[n] = 1
		for t := range edges[n] {
			if t == n {
				continue
			}
			if state[t] == 1 {
				cyc = append(append([]string{}, path...), n, t)
				return
			}
			if state[t] == 0 {
				dfs(t, append(path, n))
			}
		}
		state[n] = 2
	}
	for _, n := range names {
		if state[n] == 0 {
			dfs(n, nil)
		}
	}
	c.check(len(cyc) == 0, rule, "acyclic", "-", fmt.Sprintf("%d actors, wait-for edges form a DAG", len(actors)), "synchronous calls between actors form a cycle "+strings.Join(cyc, " → ")+": two loops can wait for each other forever")
	c.floor(rule, 8, "hand-confirmed edges: controller→{_cache,_subscription,_watcher}, _watcher→_watchSession, _lister→_ticker, publisher→_subscription, filterSubscription→{_cache,_subscription}, monitor→{_cache,_subscription}")
}

// checkNotRunningErrors: every request API that returns an error reports
// ErrNotRunning (possibly wrapped) exactly on the path where the actor's
// stopping channel fired, and nil where the request was accepted.
func checkNotRunningErrors(c *Ctx) {
	rule := "T-SHAPE(request-api)"
	n := 0
	for _, f := range c.P.SrcFuncs("") {
		if f.Parent() != nil || f.Signature.Recv() == nil {
			continue
		}
		res := f.Signature.Results()
		if res.Len() == 0 {
			continue
		}
		if nt, ok := res.At(res.Len() - 1).Type().(*types.Named); !ok || nt.Obj().Name() != "error" {
			continue
		}
		// only functions with a request select
		has := false
		for _, b := range f.Blocks {
			for _, in := range b.Instrs {
				if s, ok := in.(*ssa.Select); ok && s.Blocking {
					for _, st := range s.States {
						if st.Dir == types.SendOnly {
							has = true
						}
					}
				}
			}
		}
		if !has {
			continue
		}
		n++
		c.useFn(f)
		ok, detail := true, ""
		sawStop, sawSent := false, false
		for _, pa := range pathsOf(c, f) {
			if pa.End.Kind != "return" {
				continue
			}
			arm := ""
			for _, e := range pa.Effects {
				if e.Kind == "select" && e.Blocking && e.Arm >= 0 {
					st := e.Sel[e.Arm]
					if st.Send != nil {
						arm = "sent"
					} else if st.Chan.K == "invoke" && st.Chan.S == "ShuttingDown" {
						arm = "stopping"
					}
				}
				// a guard clause that has already seen the stopping channel closed (non-blocking
				// poll) may answer "not running" without entering the request select: the select
				// could have answered the same
				if e.Kind == "select" && !e.Blocking && e.Arm >= 0 && arm == "" {
					if st := e.Sel[e.Arm]; st.Send == nil && st.Chan.K == "invoke" && st.Chan.S == "ShuttingDown" {
						arm = "stopping"
					}
				}
			}
			last := pa.End.Results[len(pa.End.Results)-1]
			isNotRunning := termContains(last, func(x *Term) bool {
				return (x.K == "load" || x.K == "global") && strings.Contains(x.Key(), "ErrNotRunning")
			})
			if arm == "" {
				ok, detail = false, "a path returns without going through the request select (a fast path that bypasses the actor: the request is never applied)"
			}
			if arm == "sent" {
				// the request carries every argument of the call, and what is returned is what the loop replied
				var sent, reply *Term
				for _, e := range pa.Effects {
					if e.Kind == "select" && e.Blocking && e.Arm >= 0 && e.Sel[e.Arm].Send != nil {
						sent = e.Sel[e.Arm].Send
					}
				}
				walkTerm(sent, func(x *Term) {
					if x.K == "makechan" {
						reply = x
					}
				})
				for _, prm := range f.Params[1:] {
					if !termContains(sent, func(x *Term) bool { return x.K == "param" && x.S == prm.Name() }) {
						ok, detail = false, "the request sent to the loop does not carry the argument "+prm.Name()
					}
				}
				if len(pa.End.Results) == 2 {
					r0 := pa.End.Results[0]
					if !(reply != nil && r0.K == "recv" && sameTerm(r0.A[0], reply)) {
						ok, detail = false, "the value returned is not the loop's reply to this request"
					}
				}
			}
			switch arm {
			case "stopping":
				sawStop = true
				if !isNotRunning {
					ok, detail = false, "the stopping arm does not return ErrNotRunning"
				}
			case "sent":
				sawSent = true
				if isNotRunning {
					ok, detail = false, "an accepted request returns ErrNotRunning"
				}
			}
		}
		if !sawStop || !sawSent {
			ok, detail = false, "request select without both a send arm and a ShuttingDown() arm"
		}
		c.check(ok, rule, fnName(f)+"/request-select-and-reply", c.P.fnPos(f), "", fnName(f)+": "+detail+" (a caller racing with shutdown must get ErrNotRunning or a result, never block or a misleading success)")
	}
	c.floor(rule, 9, "cache x5 (sync, update, refilter, List, Get), publisher.Subscribe, filterSubscription.Refilter, _watcher.reset, _subscription.send")
	_ = n
	// requests are handed over synchronously: no goroutine body sends on a channel field of an
	// actor (two calls made one after the other must reach the loop in that order).  The one
	// frozen exception is the unsubscribe watcher (K9 of the blocking inventory).
	nsend := 0
	for _, f := range c.P.SrcFuncs("") {
		for _, b := range f.Blocks {
			for _, in := range b.Instrs {
				var chans []ssa.Value
				switch x := in.(type) {
				case *ssa.Send:
					chans = append(chans, x.Chan)
				case *ssa.Select:
					for _, st := range x.States {
						if st.Dir == types.SendOnly {
							chans = append(chans, st.Chan)
						}
					}
				}
				for _, ch := range chans {
					for _, key := range chanFieldKeys(c.P, ch, 0) {
						nsend++
						sn := spawnName(c.P, f)
						if !strings.HasPrefix(sn, "go@") {
							continue
						}
						if f.Name() == "run" && f.Signature.Recv() != nil {
							continue // an actor's own loop sending on its own channels is the design (tables, T-CHAN(single-sender))
						}
						c.sites++
						allowed := key == "publisher.unsubscribech" && sn == "go@publisher.createSubscription"
						c.check(allowed, "T-CHAN(request-sync)", key+"/sent-from/"+sn, c.P.instrPos(in), "frozen exception: the unsubscribe watcher (K9)",
							key+" is sent on from a spawned goroutine ("+fnName(f)+"): requests handed to an actor asynchronously can overtake each other, so the actor may apply an older request last")
					}
				}
			}
		}
	}
	c.check(nsend >= 10, "T-CHAN(request-sync)", "actor-channel-sends/sites", "-", fmt.Sprintf("%d sends on actor channel fields", nsend), fmt.Sprintf("only %d sends on actor channel fields found (anchor lost?)", nsend))
}

// checkRequestChannelPairing: each request method hands its request to the channel its actor's
// loop serves for that request (frozen pairing; `Reset()` sending on the stop channel would
// stop the ticker for good).
func checkRequestChannelPairing(c *Ctx) {
	rule := "T-SHAPE(request-api)"
	pairs := [][2]string{
		{"_ticker.Reset", "resetch"}, {"_ticker.Stop", "stopch"},
		{"_watcher.reset", "resetch"}, {"_watcher.events", "evtch"},
		{"filterSubscription.Refilter", "refilterch"}, {"_subscription.send", "inch"},
		{"_cache.sync", "syncch"}, {"_cache.update", "updatech"}, {"_cache.refilter", "refilterch"}, {"_cache.List", "listch"}, {"_cache.Get", "getch"},
	}
	for _, pr := range pairs {
		fn := c.mustFunc("", pr[0])
		if fn == nil {
			continue
		}
		ok, n := true, 0
		for _, pa := range pathsOf(c, fn) {
			for _, e := range pa.Effects {
				if e.Kind != "select" && e.Kind != "send" {
					continue
				}
				if e.Kind == "send" {
					if e.Addr != nil && e.Addr.K == "field" && e.Addr.A[0].K == "param" {
						n++
						if !e.Addr.IsRecvField(pr[1]) {
							ok = false
						}
					}
					continue
				}
				for _, st := range e.Sel {
					if st.Send == nil || st.Chan.K != "field" {
						continue
					}
					n++
					if !st.Chan.IsRecvField(pr[1]) {
						ok = false
					}
				}
			}
		}
		c.check(ok && n > 0, rule, pr[0]+"/sends-on-"+pr[1], c.P.fnPos(fn), "", pr[0]+" does not hand its request to ."+pr[1]+" (and only to it): the actor would take it for a different request")
	}
}

// checkCtorChannelCapacities: the request/hand-off channels the actors'
// protocols rely on keep their capacity: rendezvous channels stay unbuffered
// (a buffered tick or reset channel lets a stale message survive the handler
// that was meant to withdraw it), event buffers stay at EventBufsiz.
func checkCtorChannelCapacities(c *Ctx) {
	rule := "T-CHAN(capacities)"
	bufLit, _ := c.P.constLit("", "EventBufsiz")
	want := map[string]string{
		"_subscription.inch": "0", "_subscription.outch": bufLit,
		"filterSubscription.refilterch": "0", "filterSubscription.outch": bufLit, "filterSubscription.readych": "0",
		"_cache.syncch": "0", "_cache.updatech": "0", "_cache.refilterch": "0", "_cache.getch": "0", "_cache.listch": "0",
		"publisher.subscribech": "0", "publisher.unsubscribech": "0",
		"_lister.resultch": "0",
		"_ticker.nextch":   "0", "_ticker.resetch": "0", "_ticker.stopch": "0", "_ticker.donech": "0",
		"_watcher.resetch": "0", "_watcher.evtch": "0",
		"_watchSession.outch": bufLit,
		"controller.readych":  "0",
	}
	seen := map[string]bool{}
	for _, f := range c.P.SrcFuncs("") {
		for _, b := range f.Blocks {
			for _, in := range b.Instrs {
				st, ok := in.(*ssa.Store)
				if !ok {
					continue
				}
				fa, ok := st.Addr.(*ssa.FieldAddr)
				if !ok {
					continue
				}
				v := st.Val
				if ct, ok := v.(*ssa.ChangeType); ok {
					v = ct.X
				}
				mc, ok := v.(*ssa.MakeChan)
				if !ok {
					continue
				}
				key := typeNameOf(fa.X.Type()) + "." + structFieldName(fa.X.Type(), fa.Field)
				w, known := want[key]
				if !known {
					continue
				}
				seen[key] = true
				c.sites++
				n, isConst := constIntValue(mc.Size)
				c.check(isConst && fmt.Sprint(n) == w, rule, key+"/capacity="+w, c.P.instrPos(in), "", fmt.Sprintf("channel %s is made with capacity %v, the protocol needs %s", key, mc.Size, w))
			}
		}
	}
	// controller.readych is a local in builder.Create (checked by T-FLOW(ready)); all others must have been seen
	missing := []string{}
	for k := range want {
		if !seen[k] && k != "controller.readych" {
			missing = append(missing, k)
		}
	}
	sort.Strings(missing)
	c.check(len(missing) == 0, rule, "all-protocol-channels-found", "-", fmt.Sprintf("%d channels", len(seen)), fmt.Sprintf("protocol channels not found in any constructor: %v", missing))
}

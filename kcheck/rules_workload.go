package main

// Workload selection filters (C19): sibling shape of the seven PodsFilter,
// ingress.ServicesFilter, node / involved-object / selector-match filters.

import (
	"go/types"
	"fmt"
	"go/token"
	"strings"

	"golang.org/x/tools/go/ssa"
)

type podsFilterKind struct {
	rel  string
	mode string // apps | service | rc
}

var podsFilterSiblings = []podsFilterKind{
	{"types/service", "service"},
	{"types/replicationcontroller", "rc"},
	{"types/replicaset", "apps"},
	{"types/deployment", "apps"},
	{"types/daemonset", "apps"},
	{"types/statefulset", "apps"},
	{"types/job", "apps"},
}

// srcOf: term is a field path rooted at the loop element index(M, i); returns the element term and the path below it.
// comparatorIndexesSortedSlice: every element the less-closure cl looks at is an element of the
// very slice handed to the sort.Slice call that uses cl (not of the unsorted original).
func comparatorIndexesSortedSlice(cl *ssa.Function) bool {
	par := cl.Parent()
	if par == nil {
		return false
	}
	var mk *ssa.MakeClosure
	var sorted ssa.Value
	for _, sf := range closuresOf(par) {
		if sf.Fn != cl {
			continue
		}
		mk = sf.Mk
		for _, r := range *mk.Referrers() {
			if call, ok := r.(*ssa.Call); ok && len(call.Call.Args) == 2 {
				if g := call.Call.StaticCallee(); g != nil && strings.HasSuffix(fnName(g), "sort.Slice") {
					sorted = stripIface(call.Call.Args[0])
				}
			}
		}
	}
	if mk == nil || sorted == nil {
		return false
	}
	// identity of a slice variable: the cell it lives in, or the value itself
	ident := func(v ssa.Value) ssa.Value {
		if u, ok := v.(*ssa.UnOp); ok && u.Op == token.MUL {
			return u.X
		}
		return v
	}
	want := ident(sorted)
	sf := &subFunc{Fn: cl, Mk: mk}
	n := 0
	for _, b := range cl.Blocks {
		for _, in := range b.Instrs {
			var base ssa.Value
			switch x := in.(type) {
			case *ssa.IndexAddr:
				base = x.X
			case *ssa.Index:
				base = x.X
			default:
				continue
			}
			n++
			o := sf.outer(base)
			if o == nil {
				return false
			}
			if o != want && ident(o) != want && storedValue(o) != want && storedValue(o) != storedValue(want) {
				return false
			}
		}
	}
	return n > 0
}

func elemPath(t *Term) (*Term, string) {
	path := ""
	for t != nil {
		switch t.K {
		case "field":
			path = "." + t.S + path
			t = t.A[0]
		case "faddr":
			path = "." + t.S + path
			t = t.A[0]
		case "index":
			return t, path
		case "alloc":
			return t, path
		default:
			return nil, ""
		}
	}
	return nil, ""
}

// nsOfElem: term denotes the namespace of element e: e.GetNamespace() or e.(ObjectMeta.)Namespace
func nsOfElem(t *Term) *Term {
	if t == nil {
		return nil
	}
	if t.K == "call" && strings.HasSuffix(t.S, "ObjectMeta.GetNamespace") && len(t.A) == 1 {
		e, p := elemPath(t.A[0])
		if e != nil && p == ".ObjectMeta" {
			return e
		}
		if t.A[0].K == "faddr" && t.A[0].S == "ObjectMeta" && t.A[0].A[0].K == "param" {
			return t.A[0].A[0]
		}
	}
	if t.K == "invoke" && t.S == "GetNamespace" {
		return t.A[0]
	}
	if e, p := elemPath(t); e != nil && (p == ".ObjectMeta.Namespace" || p == ".Namespace") {
		return e
	}
	return nil
}

// emptyInputYieldsEmptyOr: on this path the variadic source list is known to be empty, nothing is
// done, and the result is filter.Or() of nothing — what the loop over no sources returns too.
func emptyInputYieldsEmptyOr(pa *Path, param *ssa.Parameter) bool {
	lenT := &Term{K: "len", A: []*Term{{K: "param", S: param.Name(), V: param}}}
	zero := &Term{K: "const", S: "0"}
	if relBetween(pa, lenT, zero) != relEQ {
		return false
	}
	if pa.End.Kind != "return" || len(pa.End.Results) != 1 {
		return false
	}
	r := pa.End.Results[0]
	for r.K == "makeiface" || r.K == "convert" {
		r = r.A[0]
	}
	if r.K != "call" || !strings.HasSuffix(r.S, "filter:Or") {
		return false
	}
	for _, a := range r.A {
		if !(a.K == "varargs" && len(a.A) == 0) && !a.IsNil() {
			return false
		}
	}
	for _, e := range pa.Effects {
		if e.IsPure() || e.Kind == "call" && e.Res == pa.End.Results[0] {
			continue
		}
		if e.Kind == "call" && strings.HasSuffix(e.Res.S, "filter:Or") {
			continue
		}
		return false
	}
	return true
}

func checkPodsFilters(c *Ctx, orderOnly bool) {
	rule := "T-SHAPE(PodsFilter)"
	for _, k := range podsFilterSiblings {
		fn := c.mustFunc(k.rel, "PodsFilter")
		if fn == nil {
			continue
		}
		name := k.rel + ":PodsFilter"
		pos := c.P.fnPos(fn)
		ps := pathsOf(c, fn)
		paramName := fn.Params[0].Name()
		// (a) sorted copy
		sortedOK, sortDetail := true, ""
		var base *Term
		for _, pa := range ps {
			if emptyInputYieldsEmptyOr(pa, fn.Params[0]) {
				// fast path for no sources: exactly what the general path yields for them
				continue
			}
			var copied, sorted *Term
			order := 0
			copyAt, sortAt := -1, -1
			for i, e := range pa.Effects {
				if e.Kind == "builtin" && e.Method == "copy" && len(e.Args) == 2 && isParamT(e.Args[1], paramName) {
					copied = e.Args[0]
					copyAt = i
				}
				if e.Kind == "call" && e.Fn != nil && fnName(e.Fn) == "sort.Slice" && len(e.Args) == 2 {
					sorted = e.Args[0]
					order = i
					sortAt = i
				}
				if e.Kind == "append" && sorted == nil {
					sortedOK, sortDetail = false, "elements are appended before the sources are sorted"
				}
				_ = order
			}
			if copied == nil || sorted == nil || !sameTerm(copied, sorted) || copied.K != "makeslice" || copyAt > sortAt {
				sortedOK, sortDetail = false, "the sources are not copied into a fresh slice that is then sorted (argument order would leak into the filter and break equality of filters built from the same sources)"
			} else {
				base = copied
			}
		}
		c.check(sortedOK, rule, name+"/sorted-copy-of-sources", pos, "copy then sort.Slice", name+": "+sortDetail)
		// nothing in the builder iterates over a map: Go randomises that order, and the order of
		// the Or/And children is part of the filter's identity (Equals is order-sensitive)
		noMapRange := true
		for g := range c.P.ownerClosure(fn) {
			for _, b := range g.Blocks {
				for _, in := range b.Instrs {
					if rg, isRange := in.(*ssa.Range); isRange {
						if _, isMap := rg.X.Type().Underlying().(*types.Map); isMap {
							noMapRange = false
						}
					}
				}
			}
		}
		c.check(noMapRange, rule, name+"/no-map-iteration", pos, "", name+" ranges over a map while building the filter: the children's order, and with it equality of filters built from the same sources, becomes random")
		// comparator
		if cl := closureArgOf(fn, "sort.Slice"); cl != nil {
			c.useFn(cl)
			cps := pathsOf(c, cl)
			ok := len(cps) == 2 && len(cl.Params) == 2
			for _, pa := range cps {
				if !ok {
					break
				}
				var nsEq, known bool
				for _, l := range pa.Lits {
					if l.T.K == "binop" && l.T.S == "==" {
						ea, pa1 := elemPath(l.T.A[0])
						eb, pb := elemPath(l.T.A[1])
						if ea != nil && eb != nil && strings.HasSuffix(pa1, "Namespace") && strings.HasSuffix(pb, "Namespace") && !sameTerm(ea, eb) {
							nsEq, known = l.Val, true
						}
					}
				}
				r := pa.End.Results
				if !known || len(r) != 1 || r[0].K != "binop" || r[0].S != "<" {
					ok = false
					continue
				}
				ea, p1 := elemPath(r[0].A[0])
				eb, p2 := elemPath(r[0].A[1])
				want := "Name"
				if !nsEq {
					want = "Namespace"
				}
				// a is element i, b is element j
				if ea == nil || eb == nil || !strings.HasSuffix(p1, "."+want) || !strings.HasSuffix(p2, "."+want) ||
					!(ea.A[1].K == "param" && ea.A[1].S == cl.Params[0].Name() && eb.A[1].K == "param" && eb.A[1].S == cl.Params[1].Name()) {
					ok = false
				}
			}
			if ok && !comparatorIndexesSortedSlice(cl) {
				ok = false
			}
			c.check(ok, rule, name+"/comparator-(namespace,name)", c.P.fnPos(cl), "", name+": the sort comparator is not the total order (namespace, then name) on the elements of the slice being sorted")
		} else {
			c.fail(rule, name+"/comparator-(namespace,name)", pos, "no sort comparator closure found")
		}
		if orderOnly {
			continue
		}
		// (c) elements: judged on a generic iteration of the loop over the sorted sources (loop
		// header values symbolic), not only on the first iteration from the function entry — state
		// carried from one source to the next (a hoisted namespace filter) must not leak into an element
		nsOK, nsDetail := true, ""
		selOK, selDetail := true, ""
		iter := 0
		if lps := findLoopsDeep(c.P, fn); len(lps) == 1 {
			gps := (&Walker{P: c.P}).LoopRegion(fn, lps[0])
			c.paths += len(gps)
			for _, pa := range gps {
				for _, e := range pa.Effects {
					if e.Kind != "append" {
						continue
					}
					for _, el := range e.Args[1:] {
						walkTerm(el, func(x *Term) {
							if x.K != "phi" {
								return
							}
							// the range index (an int counter) is the only loop-carried value an element may depend on
							if ph, ok := x.V.(*ssa.Phi); ok && isIntLike(ph.Type()) {
								return
							}
							nsOK, nsDetail = false, "an element depends on state carried over from the previous source ("+x.Key()+"): it is not a function of its own source alone"
						})
					}
				}
			}
		}
		for _, pa := range ps {
			if pa.End.Kind != "cycle" {
				continue
			}
			iter++
			var appended []*Term
			for _, e := range pa.Effects {
				if e.Kind == "append" {
					appended = append(appended, e.Args[1:]...)
				}
			}
			// the loop element
			var src *Term
			for _, l := range pa.Lits {
				walkTerm(l.T, func(x *Term) {
					if x.K == "index" && base != nil && sameTerm(x.A[0], base) {
						src = x
					}
				})
			}
			for _, a := range appended {
				walkTerm(a, func(x *Term) {
					if x.K == "index" && base != nil && sameTerm(x.A[0], base) {
						src = x
					}
				})
			}
			// selector condition
			selNil, selNilKnown := false, false
			selNonEmpty, selNEKnown := false, false
			for _, l := range pa.Lits {
				if x, ok := isNilTest(l.T); ok {
					if e, p := elemPath(x); e != nil && p == ".Spec.Selector" {
						selNil, selNilKnown = l.Val, true
					}
				}
				if l.T.K == "binop" && (l.T.S == "<" || l.T.S == "==") {
					for _, side := range l.T.A {
						if side.K != "len" {
							continue
						}
						if e, p := elemPath(side.A[0]); e != nil && p == ".Spec.Selector" {
							m := relBetween(pa, &Term{K: "const", S: "0"}, side)
							// len >= 0 always: "not equal to 0" means non-empty, "not above 0" means empty
							if m&relEQ == 0 {
								selNonEmpty, selNEKnown = true, true
							} else if m&relLT == 0 {
								selNonEmpty, selNEKnown = false, true
							}
						}
					}
				}
			}
			wantSel := ""
			wantAppend := true
			switch k.mode {
			case "apps":
				if !selNilKnown {
					selOK, selDetail = false, "no test whether Spec.Selector is nil (selector vs template-labels fallback)"
				} else if selNil {
					wantSel = "Labels(template)"
				} else {
					wantSel = "LabelSelector(selector)"
				}
			case "service":
				if !selNEKnown {
					selOK, selDetail = false, "no test whether the service has a selector (a service without selector must select nothing)"
				} else if selNonEmpty {
					wantSel = "Labels(selector)"
				} else {
					wantAppend = false
				}
			case "rc":
				if !selNEKnown {
					selOK, selDetail = false, "no test whether the replication controller has a selector: a selector-less controller yields Labels(empty), which matches every pod, instead of falling back to its template labels"
				} else if selNonEmpty {
					wantSel = "Labels(selector)"
				} else {
					wantSel = "Labels(template)"
					if len(appended) == 0 {
						// nothing selected: only when there are no template labels either
						noTemplate := false
						for _, l := range pa.Lits {
							if x, ok := isNilTest(l.T); ok && l.Val {
								if e, p := elemPath(x); e != nil && p == ".Spec.Template" {
									noTemplate = true
								}
							}
							if l.T.K == "binop" && (l.T.S == "<" || l.T.S == "==") {
								for _, side := range l.T.A {
									if side.K != "len" {
										continue
									}
									if e, p := elemPath(side.A[0]); e != nil && strings.HasPrefix(p, ".Spec.Template") && strings.HasSuffix(p, "Labels") {
										if m := relBetween(pa, &Term{K: "const", S: "0"}, side); m&relLT == 0 {
											noTemplate = true
										}
									}
								}
							}
						}
						if !noTemplate {
							selOK, selDetail = false, "a controller without selector selects nothing although nothing shows that it has no template labels either (the template-labels fallback is lost)"
						}
						wantAppend = false
					}
				}
			}
			if len(appended) > 0 && src == nil {
				selOK, selDetail = false, "the elements are not built from the sorted copy of the sources (the loop ranges over something else)"
			}
			if !wantAppend {
				if len(appended) != 0 {
					selOK, selDetail = false, "an element is built for a source without selector"
				}
				continue
			}
			if len(appended) != 1 {
				nsOK, nsDetail = false, fmt.Sprintf("%d elements appended per source", len(appended))
				continue
			}
			el := appended[0]
			// And(varargs(NSF, SEL))
			var nsf, sel *Term
			if a, ok := isCall(el, "filter:And"); ok && len(a) == 1 && a[0].K == "varargs" && len(a[0].A) == 2 {
				for _, x := range a[0].A {
					if _, isNS := isCall(x, "filter:NSName"); isNS {
						nsf = x
					} else {
						sel = x
					}
				}
			} else {
				sel = el
			}
			// namespace scoping
			scoped := false
			if nsf != nil {
				if a, _ := isCall(nsf, "filter:NSName"); len(a) == 1 && a[0].K == "varargs" && len(a[0].A) == 1 {
					if n, ok := isCall(a[0].A[0], "nsname:New"); ok && len(n) == 2 && n[1].Key() == `""` {
						if e := nsOfElem(n[0]); e != nil && src != nil && sameTerm(e, src) {
							scoped = true
						}
					}
				}
			}
			if !scoped {
				nsOK, nsDetail = false, "the element built for a source is not And(NSName(<that source's namespace>, \"\"), …): a pod of another namespace with matching labels is accepted"
			}
			// selector part
			gotSel := "OTHER:" + sel.Key()
			if sel != nil {
				if a, ok := isCall(sel, "filter:LabelSelector"); ok && len(a) == 1 {
					if e, p := elemPath(a[0]); e != nil && p == ".Spec.Selector" && (src == nil || sameTerm(e, src)) {
						gotSel = "LabelSelector(selector)"
					}
				}
				if a, ok := isCall(sel, "filter:Labels"); ok && len(a) == 1 {
					if e, p := elemPath(a[0]); e != nil && (src == nil || sameTerm(e, src)) {
						switch {
						case p == ".Spec.Selector":
							gotSel = "Labels(selector)"
						case strings.HasPrefix(p, ".Spec.Template") && strings.HasSuffix(p, ".Labels"):
							gotSel = "Labels(template)"
						}
					}
				}
			}
			if wantSel != "" && gotSel != wantSel {
				selOK, selDetail = false, "selector part of the element is "+gotSel+", want "+wantSel
			}
		}
		if iter == 0 {
			nsOK, nsDetail = false, "no loop over the sources found"
			selOK, selDetail = false, "no loop over the sources found"
		}
		c.check(nsOK, rule, name+"/element-namespace-scoped", pos, "And(NSName(ns(src),\"\"), …)", name+": "+nsDetail)
		c.check(selOK, rule, name+"/element-selector", pos, "selector or template fallback", name+": "+selDetail)
		// (d) result = Or(all appended)
		retOK := false
		for _, b := range fn.Blocks {
			if r, ok := b.Instrs[len(b.Instrs)-1].(*ssa.Return); ok && len(r.Results) == 1 {
				v := r.Results[0]
				if mi, ok := v.(*ssa.MakeInterface); ok {
					v = mi.X
				}
				if call, ok := v.(*ssa.Call); ok && call.Call.StaticCallee() != nil && fnName(call.Call.StaticCallee()) == "filter:Or" {
					if phi, ok := call.Call.Args[0].(*ssa.Phi); ok {
						for _, e := range phi.Edges {
							if ac, ok := e.(*ssa.Call); ok {
								if bi, ok := ac.Call.Value.(*ssa.Builtin); ok && bi.Name() == "append" {
									retOK = true
								}
							}
							if ph2, ok := e.(*ssa.Phi); ok {
								for _, e2 := range ph2.Edges {
									if ac, ok := e2.(*ssa.Call); ok {
										if bi, ok := ac.Call.Value.(*ssa.Builtin); ok && bi.Name() == "append" {
											retOK = true
										}
									}
								}
							}
						}
					}
				}
			}
		}
		c.check(retOK, rule, name+"/returns-Or(elements)", pos, "", name+": the result is not filter.Or over the elements built in the loop")
	}
}

// ---------- ingress ----------

func checkIngressFilter(c *Ctx) {
	rule := "T-SHAPE(ServicesFilter)"
	fn := c.mustFunc("types/ingress", "buildServicesFilter")
	if fn == nil {
		return
	}
	pos := c.P.fnPos(fn)
	ingName := fn.Params[0].Name()
	isIngNS := func(t *Term) bool { e := nsOfElem(t); return e != nil && isParamT(e, ingName) }
	// default backend (function prelude up to the first loop)
	loops := findLoops(fn)
	if len(loops) != 2 {
		c.fail(rule, "types/ingress:buildServicesFilter/rules-and-paths-loops", pos, fmt.Sprintf("expected the two nested loops over rules and paths, found %d loops", len(loops)))
		return
	}
	outer, inner := loops[0], loops[1]
	if len(outer.Body) < len(inner.Body) {
		outer, inner = inner, outer
	}
	pre := (&Walker{P: c.P}).PreludeRegion(fn, outer)
	c.paths += len(pre)
	ok, detail := true, ""
	for _, pa := range pre {
		var beNil, beKnown, nameEmpty, nameKnown bool
		for _, l := range pa.Lits {
			if x, okk := isNilTest(l.T); okk {
				if p, _ := x.FieldPath(); p == ingName+".Spec.Backend" {
					beNil, beKnown = l.Val, true
				}
			}
			if x, okk := eqConst(l.T, `""`); okk {
				if p, _ := x.FieldPath(); p == ingName+".Spec.Backend.ServiceName" {
					nameEmpty, nameKnown = l.Val, true
				}
			}
		}
		apps := 0
		for _, e := range pa.Effects {
			if e.Kind == "append" {
				apps++
				a, isNew := isCall(e.Args[1], "nsname:New")
				if !(isNew && len(a) == 2 && isIngNS(a[0])) {
					ok, detail = false, "default backend id is not (ingress namespace, service name)"
				} else if p, _ := a[1].FieldPath(); p != ingName+".Spec.Backend.ServiceName" {
					ok, detail = false, "default backend id does not name Spec.Backend.ServiceName"
				}
			}
		}
		want := 0
		if beKnown && !beNil && nameKnown && !nameEmpty {
			want = 1
		}
		if apps != want {
			ok, detail = false, fmt.Sprintf("default backend: %d ids appended where %d expected (backend nil=%v, name empty=%v)", apps, want, beNil, nameEmpty)
		}
	}
	sawDefault := false
	for _, pa := range pre {
		for _, e := range pa.Effects {
			if e.Kind == "append" {
				sawDefault = true
			}
		}
	}
	if !sawDefault {
		ok, detail = false, "the default backend (Spec.Backend) never contributes a service id"
	}
	c.check(ok, rule, "types/ingress:buildServicesFilter/default-backend", pos, "", "buildServicesFilter: "+detail)
	// inner loop: every non-empty path backend → id (ns(ing), service); nothing else decides
	ips := (&Walker{P: c.P}).LoopRegion(fn, inner)
	c.paths += len(ips)
	ts := &tableSpec{
		Rule: rule, Region: "buildServicesFilter, one HTTP path",
		Atoms: []atomSpec{{"more", boolDom}, {"nameEmpty", boolDom}},
		Lit: func(pa *Path, l Lit) litClass {
			t := l.T
			if t.K == "binop" && t.S == "<" && t.A[1].K == "len" && strings.HasSuffix(t.A[1].A[0].Key(), ".Paths") {
				return litClass{Atom: "more", IfTrue: []string{"T"}, OK: true}
			}
			if x, ok := eqConst(t, `""`); ok && strings.HasSuffix(x.Key(), ".Backend.ServiceName") {
				return litClass{Atom: "nameEmpty", IfTrue: []string{"T"}, OK: true}
			}
			return litClass{}
		},
		Outcome: func(pa *Path) ([]string, string) {
			var out []string
			for _, e := range pa.Effects {
				switch {
				case e.Kind == "append":
					a, isNew := isCall(e.Args[1], "nsname:New")
					if isNew && len(a) == 2 && isIngNS(a[0]) && strings.HasSuffix(a[1].Key(), ".Backend.ServiceName") {
						out = append(out, "id(ing.namespace, path.service)")
					} else {
						out = append(out, "id(OTHER)")
					}
				case e.IsPure(), e.Kind == "call" && e.Fn != nil && (fnName(e.Fn) == "nsname:New" || strings.HasSuffix(fnName(e.Fn), "GetNamespace")):
				case e.Kind == "store" && e.Addr.K == "alloc":
				default:
					return nil, "unexpected effect " + e.String()
				}
			}
			if pa.End.Kind == "stop" && pa.End.Block == inner.Header {
				out = append(out, "next-path")
			} else {
				out = append(out, "leave-paths-loop")
			}
			return out, ""
		},
		Expected: func(v map[string]string) [][]string {
			if v["more"] == "F" {
				return [][]string{{"leave-paths-loop"}}
			}
			if v["nameEmpty"] == "T" {
				return [][]string{{"next-path"}}
			}
			return [][]string{{"id(ing.namespace, path.service)", "next-path"}}
		},
	}
	c.runTable(ts, "types/ingress:buildServicesFilter.paths", pos, ips)
	// outer loop: every rule visited; HTTP nil → skip; otherwise inner loop entered; no early exit
	ops := (&Walker{P: c.P}).LoopRegion(fn, outer)
	c.paths += len(ops)
	okO, detO := true, ""
	for _, pa := range ops {
		for _, l := range pa.Lits {
			t := l.T
			isMore := t.K == "binop" && t.S == "<" && t.A[1].K == "len"
			_, isNil := isNilTest(t)
			_, isEmpty := eqConst(t, `""`)
			if !isMore && !isNil && !isEmpty {
				okO, detO = false, "a rule/path is skipped on a condition other than `HTTP == nil` / empty service name: "+l.String()
			}
		}
		// the paths loop is entered exactly when the rule has an HTTP section
		if (pa.End.Kind == "stop" || pa.End.Kind == "cycle") && pa.End.Block == inner.Header {
			httpNonNil := false
			for _, l := range pa.Lits {
				if x, isNil := isNilTest(l.T); isNil && strings.HasSuffix(x.Key(), ".HTTP") && !l.Val {
					httpNonNil = true
				}
			}
			if !httpNonNil {
				okO, detO = false, "the loop over HTTP paths is entered without the rule's HTTP section having been found non-nil"
			}
		}
		if pa.End.Kind == "stop" && !outer.Body[pa.End.Block] {
			// leaving the outer loop only when rules are exhausted
			exhausted := false
			for _, l := range pa.Lits {
				if l.T.K == "binop" && l.T.S == "<" && strings.HasSuffix(l.T.A[1].A[0].Key(), ".Rules") && !l.Val {
					exhausted = true
				}
			}
			if !exhausted {
				okO, detO = false, "early exit from the loop over rules"
			}
		}
	}
	c.check(okO, rule, "types/ingress:buildServicesFilter/all-rules-visited", pos, "", "buildServicesFilter: "+detO)
	// ServicesFilter: every ingress contributes buildServicesFilter(ing); result NSName(ids...)
	if sf := c.mustFunc("types/ingress", "ServicesFilter"); sf != nil {
		okS := false
		lp := findLoops(sf)
		if len(lp) == 1 {
			sps := (&Walker{P: c.P}).LoopRegion(sf, lp[0])
			c.paths += len(sps)
			okS = true
			for _, pa := range sps {
				more := false
				for _, l := range pa.Lits {
					if l.T.K == "binop" && l.T.S == "<" && l.Val {
						more = true
					} else if !(l.T.K == "binop" && l.T.S == "<") {
						okS = false
					}
				}
				if !more {
					continue
				}
				n := 0
				for _, e := range pa.Effects {
					if e.Kind == "call" && e.Fn != nil && fnName(e.Fn) == "types/ingress:buildServicesFilter" {
						if len(e.Args) != 1 || e.Args[0].K != "index" {
							okS = false // extra shared state passed along (e.g. a dedupe set across ingresses)
						}
						n++
					}
				}
				apps := 0
				for _, e := range pa.Effects {
					if e.Kind == "append" {
						apps++
					}
				}
				if n != 1 || apps != 1 || pa.End.Kind != "stop" || pa.End.Block != lp[0].Header {
					okS = false
				}
			}
		}
		c.check(okS, rule, "types/ingress:ServicesFilter/every-ingress-contributes-independently", c.P.fnPos(sf), "", "ServicesFilter does not append buildServicesFilter(ing) — a function of that ingress alone — for every ingress")
		// every return is filter.NSName(<the collected ids>...): an empty id list must yield the filter that accepts nothing
		okR, nret := true, 0
		for _, b := range sf.Blocks {
			r, isRet := b.Instrs[len(b.Instrs)-1].(*ssa.Return)
			if !isRet {
				continue
			}
			nret++
			v := r.Results[0]
			for {
				if mi, ok := v.(*ssa.MakeInterface); ok {
					v = mi.X
					continue
				}
				if ci, ok := v.(*ssa.ChangeInterface); ok {
					v = ci.X
					continue
				}
				break
			}
			call, ok := v.(*ssa.Call)
			if !ok || call.Call.StaticCallee() == nil || fnName(call.Call.StaticCallee()) != "filter:NSName" {
				okR = false
				continue
			}
			if _, isPhi := call.Call.Args[0].(*ssa.Phi); !isPhi {
				okR = false
			}
		}
		c.check(okR && nret == 1, rule, "types/ingress:ServicesFilter/returns-NSName(ids)", c.P.fnPos(sf), "", "ServicesFilter does not return filter.NSName(ids...) on every path (a special case for an empty id list changes what \"no backend named\" selects)")
	}
}

// ---------- node / involved / selector-match ----------

func checkKindFilters(c *Ctx) {
	rule := "T-SHAPE(kind-filter)"
	// nodeFilter.Accept
	if fn := c.mustFunc("types/pod", "nodeFilter.Accept"); fn != nil {
		ps := pathsOf(c, fn)
		ok := len(ps) == 2
		for _, pa := range ps {
			var isPod, known bool
			for _, l := range pa.Lits {
				if l.T.K == "assertok" && strings.HasSuffix(l.T.S, "v1.Pod") {
					isPod, known = l.Val, true
				}
			}
			if !known || len(pa.End.Results) != 1 {
				ok = false
				continue
			}
			r := pa.End.Results[0]
			if !isPod {
				if r.Key() != "false" {
					ok = false
				}
			} else if !(r.K == "lookupok" && r.A[0].K == "lookup" && r.A[0].A[0].K == "param" && strings.HasSuffix(r.A[0].A[1].Key(), ".Spec.NodeName")) {
				ok = false
			}
		}
		c.check(ok, rule, "types/pod:nodeFilter.Accept/pod-on-listed-node", c.P.fnPos(fn), "", "nodeFilter.Accept is not (obj is a *Pod) && set contains pod.Spec.NodeName")
	}
	if fn := c.mustFunc("types/pod", "NodeFilter"); fn != nil {
		lp := findLoopsDeep(c.P, fn)
		ok := len(lp) == 1
		if ok {
			for _, pa := range (&Walker{P: c.P}).LoopRegion(fn, lp[0]) {
				more := false
				for _, l := range pa.Lits {
					if l.Val && l.T.K == "binop" {
						more = true
					}
				}
				if !more {
					continue
				}
				n := 0
				for _, e := range pa.Effects {
					if e.Kind == "mapupdate" && e.Args[0].K == "index" {
						n++
					}
				}
				if n != 1 {
					ok = false
				}
			}
		}
		c.check(ok, rule, "types/pod:NodeFilter/set-of-all-names", c.P.fnPos(fn), "", "NodeFilter does not put every given name into the set")
	}
	// involvedFilter.Accept
	if fn := c.mustFunc("types/event", "involvedFilter.Accept"); fn != nil {
		ps := pathsOf(c, fn)
		ok, detail := true, ""
		pairs := map[string]string{"kind": "Kind", "ns": "Namespace", "name": "Name"}
		for _, pa := range ps {
			var isEv, known bool
			for _, l := range pa.Lits {
				if l.T.K == "assertok" && strings.HasSuffix(l.T.S, "v1.Event") {
					isEv, known = l.Val, true
				}
			}
			if !known || len(pa.End.Results) != 1 {
				ok, detail = false, "no comma-ok assertion to *Event"
				continue
			}
			r := pa.End.Results[0]
			if !isEv {
				if r.Key() != "false" {
					ok, detail = false, "an object of another kind is not rejected"
				}
				continue
			}
			// collect equality atoms: true lits + result
			got := map[string]bool{}
			anyFalse := false
			cmp := func(t *Term) bool {
				if t.K != "binop" || t.S != "==" {
					return false
				}
				for _, perm := range [][2]*Term{{t.A[0], t.A[1]}, {t.A[1], t.A[0]}} {
					f := perm[0]
					o := perm[1]
					if f.K == "field" && f.A[0].K == "param" {
						if want, okk := pairs[f.S]; okk && o.IsField(want) && strings.HasSuffix(o.A[0].Key(), ".InvolvedObject") {
							got[f.S] = true
							return true
						}
					}
				}
				return false
			}
			for _, l := range pa.Lits {
				if l.T.K == "assertok" {
					continue
				}
				if !cmp(l.T) {
					ok, detail = false, "unexpected comparison "+l.T.Key()
				}
				if !l.Val {
					anyFalse = true
				}
			}
			if anyFalse {
				if r.Key() != "false" {
					ok, detail = false, "a mismatching field does not reject"
				}
				continue
			}
			if !cmp(r) {
				ok, detail = false, "result is "+r.Key()
			}
			if len(got) != 3 {
				ok, detail = false, fmt.Sprintf("accepts after comparing only %v (need kind↔Kind, ns↔Namespace, name↔Name)", sortedKeys(got))
			}
		}
		c.check(ok, rule, "types/event:involvedFilter.Accept/kind-ns-name-pairing", c.P.fnPos(fn), "", "involvedFilter.Accept: "+detail)
	}
	if fn := c.mustFunc("types/event", "InvolvedFilter"); fn != nil {
		ps := pathsOf(c, fn)
		ok := len(ps) == 1
		if ok {
			st := map[string]*Term{}
			for _, e := range ps[0].Effects {
				if e.Kind == "store" && e.Addr.K == "faddr" {
					st[e.Addr.S] = e.Val
				}
			}
			for i, f := range []string{"kind", "ns", "name"} {
				if st[f] == nil || !isParamT(st[f], fn.Params[i].Name()) {
					ok = false
				}
			}
		}
		c.check(ok, rule, "types/event:InvolvedFilter/fields-from-arguments-in-order", c.P.fnPos(fn), "", "InvolvedFilter(kind, ns, name) does not store its arguments in the same-named fields")
	}
	if fn := c.mustFunc("types/event", "InvolvedObjectFilter"); fn != nil {
		ok := false
		for _, pa := range pathsOf(c, fn) {
			if len(pa.End.Results) == 1 {
				if a, isC := isCall(pa.End.Results[0], "types/event:InvolvedFilter"); isC && len(a) == 3 {
					ok = a[1].K == "invoke" && a[1].S == "GetNamespace" && a[2].K == "invoke" && a[2].S == "GetName" && sameTerm(a[1].A[0], a[2].A[0]) && termContains(a[0], func(x *Term) bool { return x.K == "invoke" && x.S == "GetObjectKind" || x.IsField("Kind") })
				}
			}
		}
		c.check(ok, rule, "types/event:InvolvedObjectFilter/(kind,namespace,name)-of-the-object", c.P.fnPos(fn), "", "InvolvedObjectFilter does not build InvolvedFilter(kind of obj, obj.GetNamespace(), obj.GetName())")
	}
	// serviceForFilter.Accept
	if fn := c.mustFunc("types/service", "serviceForFilter.Accept"); fn != nil {
		lp := findLoopsDeep(c.P, fn)
		ok, detail := len(lp) == 1, ""
		if ok {
			pre := (&Walker{P: c.P}).PreludeRegion(fn, lp[0])
			c.paths += len(pre)
			for _, pa := range pre {
				var isSvc, svcKnown bool
				empties := 0
				for _, l := range pa.Lits {
					if l.T.K == "assertok" && strings.HasSuffix(l.T.S, "v1.Service") {
						isSvc, svcKnown = l.Val, true
					}
					if x, okk := eqConst(l.T, "0"); okk && x.K == "len" && l.Val {
						empties++
					}
				}
				if pa.End.Kind == "return" {
					if v, isc := retConst(pa); !isc || v != "false" {
						ok, detail = false, "a pre-loop exit does not reject"
					}
					if svcKnown && isSvc && empties == 0 {
						ok, detail = false, "rejects a service for a reason other than an empty selector/target"
					}
				} else if !(svcKnown && isSvc) {
					ok, detail = false, "objects of another kind reach the matching loop"
				} else {
					// both emptiness tests must have been passed (each alone rejects)
					nonEmpty := 0
					for _, l := range pa.Lits {
						if x, okk := eqConst(l.T, "0"); okk && x.K == "len" && !l.Val {
							nonEmpty++
						}
					}
					if nonEmpty < 2 {
						ok, detail = false, "the matching loop is reached without both the service selector and the target having been found non-empty (an empty selector would match everything)"
					}
				}
			}
			ips := (&Walker{P: c.P}).IterRegion(fn, lp[0])
			c.paths += len(ips)
			for _, pa := range ips {
				var more, present, presentK, eq, eqK bool
				for _, l := range pa.Lits {
					switch {
					case l.T.K == "extract" && l.T.S == "0" && l.T.A[0].K == "next":
						more = l.Val
					case l.T.K == "lookupok":
						present, presentK = l.Val, true
					case l.T.K == "binop" && l.T.S == "==":
						eq, eqK = l.Val, true
					}
				}
				res := ""
				if pa.End.Kind == "return" {
					res, _ = retConst(pa)
				} else {
					res = "continue"
				}
				switch {
				case !more:
					if res != "true" {
						ok, detail = false, "all selector entries matched but result is "+res
					}
				case !presentK:
					ok, detail = false, "a selector entry is compared without checking that the target has the key (a missing key would match an empty value)"
				case presentK && !present, eqK && !eq:
					if res != "false" {
						ok, detail = false, "a missing/different selector entry does not reject"
					}
				case presentK && present && eqK && eq:
					if res != "continue" {
						ok, detail = false, "a matching entry ends the loop early"
					}
				}
			}
		} else {
			detail = "expected one loop over the selector"
		}
		c.check(ok, rule, "types/service:serviceForFilter.Accept/selector-subset-of-target", c.P.fnPos(fn), "", "serviceForFilter.Accept: "+detail)
	}
}

package main

// Readiness plumbing (C08), atomic handlers (C15), watch-failure containment (C14).

import (
	"go/types"
	"fmt"
	"go/token"
	"strings"

	"golang.org/x/tools/go/ssa"
)

// checkReadyPlumbing: the channel closed by the controller / filtered
// subscription is the very channel every Ready() accessor hands out.
func checkReadyPlumbing(c *Ctx) {
	rule := "T-FLOW(ready)"
	// builder.Create: same readych to newSubscription and controller.readych
	if fn := c.mustFunc("", "builder.Create"); fn != nil {
		ok, detail := false, "no path builds a controller"
		for _, pa := range pathsOf(c, fn) {
			var subReady, ctlReady *Term
			for _, e := range pa.Effects {
				if e.Kind == "call" && e.Fn != nil && fnName(e.Fn) == "newSubscription" {
					subReady = e.Args[2]
				}
				if e.Kind == "store" && e.Addr.K == "faddr" && e.Addr.S == "readych" {
					ctlReady = e.Val
				}
			}
			if subReady == nil && ctlReady == nil {
				continue
			}
			ok, detail = true, ""
			if subReady == nil || ctlReady == nil || !sameTerm(subReady, ctlReady) || ctlReady.K != "makechan" {
				ok, detail = false, "the controller's ready channel and the one given to its root subscription are not the same fresh channel"
			}
		}
		c.check(ok, rule, "builder.Create/one-ready-channel", c.P.fnPos(fn), "", "builder.Create: "+detail)
		// the controller's publisher is built here, over the controller's own root subscription
		okp := false
		for _, pa := range pathsOf(c, fn) {
			var sub, pubArg, pubStored, subStored *Term
			for _, e := range pa.Effects {
				if e.Kind == "call" && e.Fn != nil && fnName(e.Fn) == "newSubscription" {
					sub = e.Res
				}
				if e.Kind == "call" && e.Fn != nil && fnName(e.Fn) == "newPublisher" && len(e.Args) == 2 {
					pubArg = e.Args[1]
					for pubArg.K == "makeiface" || pubArg.K == "changeiface" {
						pubArg = pubArg.A[0]
					}
				}
				if e.Kind == "store" && e.Addr.K == "faddr" && e.Addr.S == "publisher" {
					pubStored = e.Val
				}
				if e.Kind == "store" && e.Addr.K == "faddr" && e.Addr.S == "subscription" {
					subStored = e.Val
				}
			}
			if sub != nil && pubArg != nil && pubStored != nil && subStored != nil && sameTerm(pubArg, sub) {
				ps := pubStored
				for ps.K == "makeiface" || ps.K == "changeiface" {
					ps = ps.A[0]
				}
				if _, isNP := isCall(ps, "newPublisher"); isNP {
					okp = true
				}
			}
		}
		c.check(okp, "T-FLOW(builder)", "builder.Create/publisher-over-root-subscription", c.P.fnPos(fn), "", "builder.Create does not build the controller's publisher over its root subscription and store it (a publisher started later misses, or replays late, what was published before)")
		// controller cache is built with the builder's filter
		okf := false
		for _, pa := range pathsOf(c, fn) {
			for _, e := range pa.Effects {
				if e.Kind == "call" && e.Fn != nil && fnName(e.Fn) == "newCache" {
					if p, okp := e.Args[3].FieldPath(); okp && strings.HasSuffix(p, ".filter") {
						okf = true
					}
				}
			}
		}
		c.check(okf, "T-FLOW(controller-filter)", "builder.Create/cache-built-with-builder-filter", c.P.fnPos(fn), "", "the controller cache is not built with the builder's filter")
	}
	// newSubscription stores its readych argument; Ready returns it
	if fn := c.mustFunc("", "newSubscription"); fn != nil {
		ok := false
		for _, pa := range pathsOf(c, fn) {
			for _, e := range pa.Effects {
				if e.Kind == "store" && e.Addr.K == "faddr" && e.Addr.S == "readych" && isParamT(e.Val, fn.Params[2].Name()) {
					ok = true
				}
			}
		}
		c.check(ok, rule, "newSubscription/readych=argument", c.P.fnPos(fn), "", "newSubscription does not keep the ready channel it was given")
	}
	for _, acc := range [][3]string{{"", "_subscription.Ready", "readych"}, {"", "controller.Ready", "readych"}, {"", "filterSubscription.Ready", "readych"}} {
		if fn := c.mustFunc(acc[0], acc[1]); fn != nil {
			ps := pathsOf(c, fn)
			ok := len(ps) == 1 && len(ps[0].End.Results) == 1 && ps[0].End.Results[0].IsRecvField(acc[2])
			c.check(ok, rule, acc[1]+"/returns-own-"+acc[2], c.P.fnPos(fn), "", acc[1]+" does not return the object's own ready channel (a fresh or closed channel would signal readiness that was never reached)")
		}
	}
	for _, fwd := range [][3]string{{"", "publisher.Ready", "parent"}, {"", "filterController.Ready", "parent"}, {"types/pod", "subscription.Ready", "parent"}, {"types/pod", "controller.Ready", "parent"}} {
		if fn := c.mustFunc(fwd[0], fwd[1]); fn != nil {
			ps := pathsOf(c, fn)
			ok := len(ps) == 1 && len(ps[0].End.Results) == 1
			if ok {
				r, _, isInv := isInvoke(ps[0].End.Results[0], "Ready")
				p, okp := r.FieldPath()
				ok = isInv && okp && strings.HasSuffix(p, "."+fwd[2])
			}
			label := fwd[1]
			if fwd[0] != "" {
				label = fwd[0] + ":" + label
			}
			c.check(ok, rule, label+"/forwards-to-."+fwd[2]+".Ready()", c.P.fnPos(fn), "", label+" does not forward to its parent's Ready()")
		}
	}
	// close(readych) sites: only the two run loops
	n := 0
	for _, f := range c.P.SrcFuncs("") {
		for _, b := range f.Blocks {
			for _, in := range b.Instrs {
				cc, kind := callCommonOf(in)
				if cc == nil {
					continue
				}
				if bi, ok := cc.Value.(*ssa.Builtin); ok && bi.Name() == "close" && strings.HasSuffix(valPath(cc.Args[0]), ".readych") {
					n++
					c.sites++
					name := fnName(f)
					owner := ""
					switch {
					case c.P.ownedBy(f, "", "controller.run"):
						owner = "controller.run"
					case c.P.ownedBy(f, "", "filterSubscription.run"):
						owner = "filterSubscription.run"
					}
					c.check(owner != "" && kind == "call", "T-WHO(close-readych)", "readych/closed-in/"+owner+name[:0], c.P.instrPos(in), "", "a ready channel is closed in "+name+": only controller.run (after the first successful sync) and filterSubscription.run (per its table) may signal readiness")
				}
			}
		}
	}
	c.check(n >= 4, "T-WHO(close-readych)", "readych/close-sites", "-", fmt.Sprintf("%d close sites", n), fmt.Sprintf("found %d close(readych) sites, hand-confirmed 4 (1 controller + 3 filterSubscription)", n))
	// joins only refilter from handler callbacks (C09 rule) and return the CloneForFilter value
}

// checkAtomicHandlers: the cache's do* functions run to completion inside
// one select arm: no channel operation, no goroutine, no call that can block.
func checkAtomicHandlers(c *Ctx) {
	rule := "T-BLOCK(cache-handlers)"
	allowedCalls := map[string]bool{"strconv.Atoi": true, "NewEvent": true, "_cache.doSync": true, "_cache.createKey": true, "_cache.createEntry": true}
	for _, name := range []string{"_cache.doList", "_cache.doSync", "_cache.doRefilter", "_cache.doUpdate", "_cache.createKey", "_cache.createEntry"} {
		fn := c.mustFunc("", name)
		if fn == nil {
			continue
		}
		bad := ""
		for _, b := range fn.Blocks {
			for _, in := range b.Instrs {
				switch x := in.(type) {
				case *ssa.Select, *ssa.Send, *ssa.Go:
					bad = fmt.Sprintf("%T", x)
				case *ssa.UnOp:
					if x.Op == token.ARROW {
						bad = "channel receive"
					}
				case *ssa.Call:
					if isLogCall(&x.Call) {
						continue
					}
					if _, isB := x.Call.Value.(*ssa.Builtin); isB {
						continue
					}
					if x.Call.IsInvoke() {
						m := x.Call.Method.Name()
						if pureInvoke[m] != "" || m == "Accept" {
							continue
						}
						bad = "call of interface method " + m
						continue
					}
					if g := x.Call.StaticCallee(); g != nil && (allowedCalls[fnName(g)] || pureStatic[fnName(g)] != "") {
						continue
					}
					// a private helper of the cache goroutine that itself runs to completion
					if g := x.Call.StaticCallee(); g != nil && c.P.ownedBy(g, "", "_cache.run") && helperRunsToCompletion(g, 0) {
						continue
					}
					bad = "call of " + valPath(x.Call.Value)
				}
			}
		}
		c.check(bad == "", rule, name+"/runs-to-completion", c.P.fnPos(fn), "no channel operation, goroutine or foreign call", name+" contains "+bad+": a cache operation would no longer be atomic with respect to readers (half-applied relist visible) or could wedge the cache loop")
	}
	// run-loop: the list arm answers with doList()'s own result, computed on the loop goroutine
	// (checked by T-TABLE(_cache.run)); the snapshot is fresh (T-SHAPE(doList)).
}

// checkSessionDeferOrder: conn.Stop() is deferred only after the connect error
// check (conn is a nil interface when Watch fails: evaluating conn.Stop panics).
func checkSessionDeferOrder(c *Ctx) {
	fn := c.mustFunc("", "_watchSession.run")
	if fn == nil {
		return
	}
	rule := "T-DOM(conn-nil-check)"
	loop := mainLoop(fn)
	if loop == nil {
		return
	}
	pre := (&Walker{P: c.P}).PreludeRegion(fn, loop)
	c.paths += len(pre)
	ok := true
	n := 0
	for _, pa := range pre {
		var conn *Term
		for _, e := range pa.Effects {
			if e.Kind == "call" && e.Fn != nil && fnName(e.Fn) == "_watchSession.connect" {
				conn = e.Res
			}
		}
		if conn == nil {
			continue
		}
		errNil, known := false, false
		for _, l := range pa.Lits {
			if x, okk := isNilTest(l.T); okk && x.K == "extract" && x.S == "1" && sameTerm(x.A[0], conn) {
				errNil, known = l.Val, true
			}
		}
		for _, e := range pa.Effects {
			uses := false
			if (e.Kind == "defer" || e.Kind == "invoke") && e.Recv != nil && e.Recv.K == "extract" && e.Recv.S == "0" && sameTerm(e.Recv.A[0], conn) {
				uses = true
			}
			if uses {
				n++
				if !(known && errNil) {
					ok = false
				}
			}
		}
	}
	c.check(ok && n >= 1, rule, "_watchSession.run/conn-used-only-after-err-check", c.P.fnPos(fn), "", "_watchSession.run uses the watch connection (conn.Stop / conn.ResultChan) on a path where the connect error has not been ruled out: a failed Watch returns a nil interface and the session goroutine panics, which makes a watch connect error fatal for the whole process")
}

// ---------- gaps closed after the mutation audit ----------

// checkErrPropagation: fn has a call C returning (x, error); on the path where
// its error is non-nil the function returns a non-nil error derived from it
// (and a nil/zero first result), and the success path is taken only when it is nil.
func checkErrPropagation(c *Ctx, rule, rel, fname, calleeSuffix string) {
	fn := c.mustFunc(rel, fname)
	if fn == nil {
		return
	}
	checkErrPropagationFn(c, rule, rel, fname, fn, calleeSuffix)
}

func checkErrPropagationFn(c *Ctx, rule, rel, fname string, fn *ssa.Function, calleeSuffix string) {
	label := fname
	if rel != "" {
		label = rel + ":" + fname
	}
	ok, detail := true, ""
	sawErr, sawOK := false, false
	for _, pa := range pathsOf(c, fn) {
		var call *Term
		for _, e := range pa.Effects {
			name := ""
			if e.Fn != nil {
				name = fnName(e.Fn)
			} else if e.Method != "" {
				name = e.Method
			}
			if (e.Kind == "call" || e.Kind == "invoke") && strings.HasSuffix(name, calleeSuffix) && call == nil {
				call = e.Res
			}
		}
		if call == nil {
			continue
		}
		isErrOf := func(x *Term) bool {
			if x.K == "extract" && x.S == "1" && sameTerm(x.A[0], call) {
				return true
			}
			// single-result error calls: result.Error()
			if x.K == "invoke" && x.S == "Error" && sameTerm(x.A[0], call) {
				return true
			}
			return x.K == "call" && strings.HasSuffix(x.S, ".Error") && len(x.A) == 1 && sameTerm(x.A[0], call)
		}
		errNil, known := false, false
		for _, l := range pa.Lits {
			if x, okk := isNilTest(l.T); okk && isErrOf(x) {
				errNil, known = l.Val, true
			}
		}
		if !known || pa.End.Kind != "return" && pa.End.Kind != "cycle" && pa.End.Kind != "stop" {
			continue
		}
		if pa.End.Kind != "return" {
			if !errNil {
				ok, detail = false, "continues its work although "+calleeSuffix+" failed"
			}
			sawOK = sawOK || errNil
			continue
		}
		res := pa.End.Results
		last := res[len(res)-1]
		if !errNil {
			sawErr = true
			if last.IsNil() || !termContains(last, isErrOf) {
				ok, detail = false, "the error of "+calleeSuffix+" is not returned (derived) on its failure path"
			}
		} else {
			sawOK = true
			if termContains(last, isErrOf) {
				ok, detail = false, "the success path returns the (nil) error of "+calleeSuffix+" as its failure"
			}
		}
	}
	if !sawErr || !sawOK {
		ok, detail = false, fmt.Sprintf("no branch on the error of %s (failure path seen=%v, success path seen=%v)", calleeSuffix, sawErr, sawOK)
	}
	c.check(ok, rule, label+"/propagates-error-of-"+calleeSuffix, c.P.fnPos(fn), "", label+": "+detail)
}

// checkBuilderFlows: every builder setter stores its argument; Client() feeds
// both the lister and the watcher builder; Create() uses the configured values.
func checkBuilderFlows(c *Ctx) {
	rule := "T-FLOW(builder)"
	for _, k := range [][2]string{{"builder.Context", "ctx"}, {"builder.Log", "log"}, {"builder.Filter", "filter"}, {"listerBuilder.Client", "client"}, {"watcherBuilder.Client", "client"}, {"listerBuilder.RefreshPeriod", "period"}} {
		fn := c.mustFunc("", k[0])
		if fn == nil {
			continue
		}
		ok := false
		for _, pa := range pathsOf(c, fn) {
			for _, e := range pa.Effects {
				if e.Kind == "store" && e.Addr.K == "faddr" && e.Addr.S == k[1] && isParamT(e.Val, fn.Params[1].Name()) {
					ok = true
				}
			}
		}
		c.check(ok, rule, k[0]+"/stores-"+k[1], c.P.fnPos(fn), "", k[0]+" does not store its argument in ."+k[1]+": the configured value would be silently ignored")
	}
	if fn := c.mustFunc("", "builder.Client"); fn != nil {
		lb, wb := false, false
		for _, pa := range pathsOf(c, fn) {
			for _, e := range pa.Effects {
				if (e.Kind == "call" || e.Kind == "invoke") && len(e.Args) >= 1 {
					recv := e.Recv
					if e.Kind == "call" && e.Fn != nil {
						recv = e.Args[0]
					}
					arg := e.Args[len(e.Args)-1]
					if recv != nil && isParamT(arg, fn.Params[1].Name()) {
						if p, okp := recv.FieldPath(); okp {
							if strings.HasSuffix(p, ".lb") {
								lb = true
							}
							if strings.HasSuffix(p, ".wb") {
								wb = true
							}
						}
					}
				}
			}
		}
		c.check(lb && wb, rule, "builder.Client/feeds-lister-and-watcher", c.P.fnPos(fn), "", "builder.Client does not hand the client to both the lister and the watcher builder")
	}
	if fn := c.mustFunc("", "builder.Create"); fn != nil {
		uses := map[string]bool{}
		for _, pa := range pathsOf(c, fn) {
			for _, e := range pa.Effects {
				if e.Kind != "call" || e.Fn == nil {
					continue
				}
				for _, a := range e.Args {
					if p, okp := a.FieldPath(); okp {
						uses[fnName(e.Fn)+"<-"+p[strings.Index(p, ".")+1:]] = true
					}
				}
				if fnName(e.Fn) == "newCache" || fnName(e.Fn) == "newLister" || fnName(e.Fn) == "newWatcher" {
					if p, okp := e.Args[0].FieldPath(); okp {
						uses[fnName(e.Fn)+"<-ctx:"+p[strings.Index(p, ".")+1:]] = true
					}
				}
			}
		}
		for _, w := range []string{"newCache<-filter", "newLister<-lb.period", "newLister<-lb.client", "newWatcher<-wb.client", "newCache<-ctx:ctx", "newLister<-ctx:ctx", "newWatcher<-ctx:ctx"} {
			c.check(uses[w], rule, "builder.Create/"+w, c.P.fnPos(fn), "", "builder.Create does not pass the configured value: "+w)
		}
		// the controller watches the builder's context
		wc := false
		for _, b := range fn.Blocks {
			for _, in := range b.Instrs {
				if g, ok := in.(*ssa.Go); ok && g.Call.IsInvoke() && g.Call.Method.Name() == "WatchContext" {
					wc = true
				}
			}
		}
		c.check(wc, rule, "builder.Create/controller-watches-context", c.P.fnPos(fn), "", "the controller's lifecycle does not watch the configured context")
	}
}

// checkRunStartedOnce: every actor run function is started by exactly one `go`
// statement and never called synchronously.
func checkRunStartedOnce(c *Ctx, runs []*runInfo) {
	rule := "T-GO(run-started-once)"
	fns := []*ssa.Function{}
	for _, r := range runs {
		if r.fn.Parent() == nil {
			fns = append(fns, r.fn)
		}
	}
	if f := c.P.Func("", "_ticker.run"); f != nil {
		fns = append(fns, f)
	}
	for _, f := range fns {
		gos, others := 0, 0
		for _, cs := range c.P.callersOf(f) {
			if cs.Kind == "go" {
				gos++
			} else {
				others++
			}
		}
		c.check(gos == 1 && others == 0, rule, fnName(f)+"/one-go-site", c.P.fnPos(f), "", fmt.Sprintf("%s is started by %d go statements and used %d other ways (want exactly one `go`): a synchronous call never returns to the constructor's caller, two goroutines break single ownership", fnName(f), gos, others))
	}
}

// checkCloseOwners: the Close/stop methods that own a lifecycle request its shutdown exactly once.
func checkCloseOwners(c *Ctx) {
	rule := "T-WHO(Close)"
	for _, name := range []string{"_subscription.Close", "controller.Close", "_watchSession.stop"} {
		fn := c.mustFunc("", name)
		if fn == nil {
			continue
		}
		n := 0
		for _, pa := range pathsOf(c, fn) {
			k := 0
			for _, e := range pa.Effects {
				if e.Kind == "invoke" && (e.Method == "Shutdown" || e.Method == "ShutdownAsync") && e.Recv.IsRecvField("lc") {
					k++
				}
			}
			if k != 1 {
				n = -100
			}
			n++
		}
		c.check(n >= 1, rule, name+"/requests-own-shutdown-once", c.P.fnPos(fn), "", name+" does not request the shutdown of its own lifecycle exactly once on every path: closing it would not stop it")
	}
}

// checkRootForwarders: the thin API methods of the root package forward to
// the same-named method of the right field with their own arguments, or
// return the right field.
func checkRootForwarders(c *Ctx) {
	rule := "T-FLOW(forwarders)"
	fwd := [][3]string{
		{"controller.Subscribe", "publisher", "Subscribe"}, {"controller.SubscribeWithFilter", "publisher", "SubscribeWithFilter"}, {"controller.SubscribeForFilter", "publisher", "SubscribeForFilter"},
		{"controller.Clone", "publisher", "Clone"}, {"controller.CloneWithFilter", "publisher", "CloneWithFilter"}, {"controller.CloneForFilter", "publisher", "CloneForFilter"},
		{"filterController.Subscribe", "parent", "Subscribe"}, {"filterController.SubscribeWithFilter", "parent", "SubscribeWithFilter"}, {"filterController.SubscribeForFilter", "parent", "SubscribeForFilter"},
		{"filterController.Clone", "parent", "Clone"}, {"filterController.CloneWithFilter", "parent", "CloneWithFilter"}, {"filterController.CloneForFilter", "parent", "CloneForFilter"},
		{"filterController.Cache", "parent", "Cache"}, {"filterController.Ready", "parent", "Ready"}, {"filterController.Done", "parent", "Done"}, {"filterController.Error", "parent", "Error"},
		{"publisher.Cache", "parent", "Cache"}, {"publisher.Ready", "parent", "Ready"},
	}
	for _, f := range fwd {
		fn := c.mustFunc("", f[0])
		if fn == nil {
			continue
		}
		ps := pathsOf(c, fn)
		ok := len(ps) == 1
		if ok {
			n := 0
			for _, e := range ps[0].Effects {
				if (e.Kind == "call" || e.Kind == "dyncall" || e.Kind == "go" || e.Kind == "store" || e.Kind == "send") && !e.IsPure() {
					ok = false // a forwarder does nothing but forward (no lazy construction, no bookkeeping)
				}
				if e.Kind == "invoke" {
					p, okp := e.Recv.FieldPath()
					if e.Method == f[2] && okp && strings.HasSuffix(p, "."+f[1]) {
						n++
						for k, a := range e.Args {
							if !(a.K == "param" && k+1 < len(fn.Params) && a.S == fn.Params[k+1].Name()) {
								ok = false
							}
						}
						// the result is returned as is
						r := ps[0].End.Results
						switch len(r) {
						case 1:
							if !sameTerm(r[0], e.Res) {
								ok = false
							}
						case 2:
							if !(r[0].K == "extract" && sameTerm(r[0].A[0], e.Res) && r[1].K == "extract" && sameTerm(r[1].A[0], e.Res)) {
								ok = false
							}
						}
						continue
					}
					if !e.IsPure() {
						ok = false
					}
				}
			}
			if n != 1 {
				ok = false
			}
		}
		c.check(ok, rule, f[0]+"/forwards-to-."+f[1]+"."+f[2], c.P.fnPos(fn), "", f[0]+" does not forward exactly to "+f[1]+"."+f[2]+" with its own arguments and return its result")
	}
	for _, f := range [][2]string{{"_subscription.Events", "outch"}, {"_subscription.Cache", "cache"}, {"_subscription.Ready", "readych"}, {"_lister.Result", "resultch"}, {"_watchSession.events", "outch"}, {"_ticker.Next", "nextch"}, {"_ticker.Done", "donech"}} {
		if fn := c.mustFunc("", f[0]); fn != nil {
			ps := pathsOf(c, fn)
			ok := len(ps) == 1 && len(ps[0].End.Results) == 1 && ps[0].End.Results[0].IsRecvField(f[1])
			c.check(ok, rule, f[0]+"/returns-own-"+f[1], c.P.fnPos(fn), "", f[0]+" does not return its own "+f[1])
		}
	}
	for _, f := range [][2]string{{"_cache.Done", "Done"}, {"_cache.Error", "Error"}, {"_lister.Done", "Done"}, {"_lister.Error", "Error"}, {"_watcher.Done", "Done"}, {"_watcher.Error", "Error"}, {"_subscription.Done", "Done"}, {"_subscription.Error", "Error"}, {"publisher.Done", "Done"}, {"publisher.Error", "Error"}, {"filterSubscription.Done", "Done"}, {"_watchSession.done", "Done"}, {"_watchSession.Error", "Error"}} {
		if fn := c.mustFunc("", f[0]); fn != nil {
			ps := pathsOf(c, fn)
			ok := len(ps) == 1 && len(ps[0].End.Results) == 1
			if ok {
				r, _, isInv := isInvoke(ps[0].End.Results[0], f[1])
				ok = isInv && r.IsRecvField("lc")
			}
			c.check(ok, rule, f[0]+"/returns-own-lc."+f[1], c.P.fnPos(fn), "", f[0]+" does not return its own lifecycle's "+f[1]+"()")
		}
	}
}

// helperRunsToCompletion: no channel operation, goroutine or interface call
// other than the trusted accessors / Accept, transitively through same-package helpers.
func helperRunsToCompletion(g *ssa.Function, depth int) bool {
	if depth > 3 || g.Blocks == nil {
		return false
	}
	for _, b := range g.Blocks {
		for _, in := range b.Instrs {
			switch x := in.(type) {
			case *ssa.Select, *ssa.Send, *ssa.Go:
				return false
			case *ssa.UnOp:
				if x.Op == token.ARROW {
					return false
				}
			case *ssa.Call:
				if isLogCall(&x.Call) {
					continue
				}
				if _, isB := x.Call.Value.(*ssa.Builtin); isB {
					continue
				}
				if x.Call.IsInvoke() {
					m := x.Call.Method.Name()
					if pureInvoke[m] != "" || m == "Accept" {
						continue
					}
					return false
				}
				h := x.Call.StaticCallee()
				if h == nil {
					return false
				}
				if pureStatic[fnName(h)] != "" {
					continue
				}
				if h.Pkg != g.Pkg || !helperRunsToCompletion(h, depth+1) {
					return false
				}
			}
		}
	}
	return true
}

// checkAppendBases: a slice that is made and then extended with append starts empty
// (`make([]T, 0, n)`): a non-zero length would put zero values (a nil object, an empty event)
// in front of what is appended, and they would be returned, published or matched against.
func checkAppendBases(c *Ctx, rels []string) {
	rule := "T-SHAPE(append-base)"
	n := 0
	for _, rel := range rels {
		for _, f := range c.P.SrcFuncs(rel) {
			for _, b := range f.Blocks {
				for _, in := range b.Instrs {
					// make([]T, len, cap) is a MakeSlice, or — with a constant capacity — `new [cap]T` sliced to [:len]
					var mk ssa.Value
					var lenV ssa.Value
					switch x := in.(type) {
					case *ssa.MakeSlice:
						mk, lenV = x, x.Len
					case *ssa.Slice:
						if al, isAlloc := x.X.(*ssa.Alloc); isAlloc && al.Heap && x.Low == nil {
							if pt, isPtr := al.Type().Underlying().(*types.Pointer); isPtr {
								if _, isArr := pt.Elem().Underlying().(*types.Array); isArr && strings.Contains(al.Comment, "makeslice") {
									mk, lenV = x, x.High
								}
							}
						}
					}
					if mk == nil {
						continue
					}
					// does it (through phis) reach the first argument of an append?
					seen := map[ssa.Value]bool{}
					isBase := false
					var visit func(v ssa.Value, d int)
					visit = func(v ssa.Value, d int) {
						if seen[v] || d > 4 || v.Referrers() == nil {
							return
						}
						seen[v] = true
						for _, r := range *v.Referrers() {
							switch x := r.(type) {
							case *ssa.Phi:
								visit(x, d+1)
							case *ssa.Call:
								if bi, okb := x.Call.Value.(*ssa.Builtin); okb && bi.Name() == "append" && len(x.Call.Args) > 0 && x.Call.Args[0] == v {
									isBase = true
								}
							}
						}
					}
					visit(mk, 0)
					if !isBase {
						continue
					}
					n++
					c.sites++
					k, isConst := constIntValue(lenV)
					c.check(isConst && k == 0, rule, fnName(f)+"/"+c.P.instrPos(in), c.P.instrPos(in), "append base made with length 0",
						fnName(f)+" appends to a slice made with a non-zero length: the leading zero values become part of the result")
				}
			}
		}
	}
	c.notes = append(c.notes, fmt.Sprintf("append bases: %d make([]T, 0, n) sites in %v", n, rels))
}

// checkNoSleep: nothing in the library sleeps: every wait is a select that also listens to
// shutdown (a time.Sleep in a retry loop keeps a goroutine, and whoever joins it, alive after Close).
func checkNoSleep(c *Ctx) {
	rule := "T-BLOCK(sleep)"
	n := 0
	for _, rel := range c.P.repoRels() {
		for _, f := range c.P.SrcFuncs(rel) {
			n++
			for _, b := range f.Blocks {
				for _, in := range b.Instrs {
					cc, _ := callCommonOf(in)
					if cc == nil {
						continue
					}
					if g := cc.StaticCallee(); g != nil && g.Pkg != nil && g.Pkg.Pkg.Path() == "time" && g.Name() == "Sleep" {
						c.fail(rule, fnName(f)+"/time.Sleep", c.P.instrPos(in), fnName(f)+" calls time.Sleep: an uninterruptible wait; shutdown cannot cut it short, so Close() and everything joined on this goroutine are delayed by it")
					}
				}
			}
		}
	}
	c.check(n > 100, rule, "repository/functions-scanned", "-", fmt.Sprintf("%d functions scanned, no time.Sleep", n), "too few functions scanned")
}

// checkCtorCompletes: once builder.Create has started any child (a constructor that starts
// goroutines), every way out starts the controller's own goroutines: the children only stop
// through the controller's lifecycle, which only controller.run ever completes — an early error
// return after the children exist leaks them for good.
func checkCtorCompletes(c *Ctx) {
	rule := "T-GO(ctor-completes)"
	fn := c.mustFunc("", "builder.Create")
	if fn == nil {
		return
	}
	ok, detail, n := true, "", 0
	for _, pa := range pathsOf(c, fn) {
		started, ran := "", false
		for _, e := range pa.Effects {
			if e.Kind == "call" && e.Fn != nil && e.Fn.Blocks != nil && e.Fn.Pkg == fn.Pkg && hasGo(e.Fn) && started == "" {
				started = fnName(e.Fn)
			}
			if e.Kind == "go" && e.Fn != nil && fnName(e.Fn) == "controller.run" {
				ran = true
			}
		}
		if started != "" {
			n++
			if !ran {
				ok, detail = false, "a path returns after "+started+"(…) started its goroutines without starting controller.run"
			}
		}
	}
	c.check(ok && n > 0, rule, "builder.Create/children-started-implies-run-started", c.P.fnPos(fn), "", "builder.Create: "+detail+": the children (cache, lister, watcher, root subscription, publisher) wait for a shutdown that can then never be initiated")
}

package main

// Positive controls for rules whose expected number of findings on a healthy
// tree is zero ("no goroutine on the event path", "no unclassified blocking
// operation", "no blocking send on a consumer buffer", "no Close of a
// parameter", "no access to cache state outside its goroutine").  In the
// thorough tier the property's rules are run a second time on an in-memory
// overlay of /repo in which one instance of each such rule is broken on
// purpose; every control must be reported.  A control whose textual anchor no
// longer exists in the source is noted as stale, not failed (the anchors are
// only a test vehicle, never part of a verdict on /repo itself).

import (
	"fmt"
	"os"
	"path/filepath"
	"strings"
)

type canary struct {
	file, old, new string
	expectRule     string // a violation whose key starts with this must appear
	what           string
}

var canaries = map[string][]canary{
	"C05": {
		{"controller.go", "\t\tc.subscription.send(evt)\n", "\t\tgo c.subscription.send(evt)\n", "T-NOSPAWN(event-path)/controller.distributeEvents", "go statement on the event path"},
	},
	"C06": {
		{"subscription_filter.go", "\tselect {\n\tcase s.refilterch <- filter:\n\t\treturn nil\n\tcase <-s.lc.ShuttingDown():\n\t\treturn errors.WithStack(ErrNotRunning)\n\t}\n}", "\tgo func() {\n\t\tselect {\n\t\tcase s.refilterch <- filter:\n\t\tcase <-s.lc.ShuttingDown():\n\t\t}\n\t}()\n\treturn nil\n}", "T-CHAN(request-sync)/filterSubscription.refilterch", "a request handed to the loop from a spawned goroutine"},
	},
	"C03": {
		{"controller.go", "\t\tcase <-c.lister.Done():\n\n\t\t\terr := c.lister.Error()\n\t\t\tc.log.Debugf(\"lister complete: %v\", err)\n\t\t\tc.lc.ShutdownInitiated(errors.Wrap(err, \"lister complete\"))\n\t\t\tbreak mainloop\n", "", "T-TABLE(controller.run)/controller.run/arm[listerDone]/present", "a select arm of the reference removed"},
	},
	"C02": {
		{"cache.go", "events := make([]Event, 0, 1)", "events := make([]Event, 1, 1)", "T-SHAPE(append-base)/_cache.doUpdate", "an append base made with a non-zero length"},
	},
	"C10": {
		{"subscription.go", "\t\t\tdefault:\n\t\t\t\ts.log.Warnf(\"event buffer overrun\")\n", "", "T-CHAN(consumer-buffer)/_subscription.run", "default: removed from the consumer-facing send"},
	},
	"C12": {
		{"ticker.go", "\t\t\t\tselect {\n\t\t\t\tcase <-timer.C:\n\t\t\t\tdefault:\n\t\t\t\t}\n", "\t\t\t\t<-timer.C\n", "T-BLOCK(inventory)/_ticker.run", "bare receive in a ticker handler (the original D6)"},
	},
	"C11": {
		{"join/join.go", "\t\tsvcs.Close()\n\t\treturn nil, err\n", "\t\tsvcbase.Close()\n\t\treturn nil, err\n", "T-WHO(join-Close)/join:IngressPods", "a join closing a controller it was handed"},
	},
	"C09": {
		{"join/join.go", "\t\tsvcs.Close()\n\t\treturn nil, err\n", "\t\tsvcbase.Close()\n\t\treturn nil, err\n", "T-WHO(join-Close)/join:IngressPods", "a join closing a controller it was handed"},
	},
	"C13": {
		{"ticker.go", "\t\t\ttimer.Reset(t.nextPeriod())\n\t\t\tnextch = nil\n\n\t\tcase <-t.stopch:", "\t\t\ttimer.Reset(t.nextPeriod())\n\t\t\tnextch = nil\n\t\t\ttimer.Stop()\n\n\t\tcase <-t.stopch:", "T-TABLE(_ticker.run)/_ticker.run/case[arm=reset", "the timer stopped again after the reset arm has re-armed it"},
	},
	"C17": {
		{"types/service/filter.go", "\t\treturn labels.Equals(f.target, other.target)\n", "\t\t_ = labels.Equals\n\t\treturn func(a, b map[string]string) bool {\n\t\t\tif len(a) != len(b) {\n\t\t\t\treturn false\n\t\t\t}\n\t\t\tfor k, v := range a {\n\t\t\t\tif b[k] != v {\n\t\t\t\t\treturn false\n\t\t\t\t}\n\t\t\t}\n\t\t\treturn true\n\t\t}(f.target, other.target)\n", "T-COVERS(Equals)/types/service:serviceForFilter.Equals", "a hand-written map comparison without the presence check (absent key ≡ empty value) in place of labels.Equals"},
	},
	"C15": {
		{"cache.go", "func (c *_cache) Error() error {\n\treturn c.lc.Error()\n}", "func (c *_cache) Error() error {\n\t_ = len(c.items)\n\treturn c.lc.Error()\n}", "T-CONFINE(_cache)/_cache.items/accessed-in/_cache.Error", "cache map read from a caller's goroutine"},
	},
}

func runCanaries(c *Ctx, ps *propSpec) {
	cs := canaries[c.Prop]
	if len(cs) == 0 || c.Tier != "thorough" || c.P == nil {
		return
	}
	saved := overlays
	defer func() { overlays = saved }()
	tmp, err := os.MkdirTemp("", "kcheck-canary")
	if err != nil {
		c.notes = append(c.notes, "positive controls skipped: "+err.Error())
		return
	}
	defer os.RemoveAll(tmp)
	overlays = map[string]string{}
	for k, v := range saved {
		overlays[k] = v
	}
	var live []canary
	edited := map[string]string{}
	for _, k := range cs {
		path := filepath.Join(c.P.Dir, k.file)
		src, ok := edited[path]
		if !ok {
			data, err := os.ReadFile(path)
			if err != nil {
				c.notes = append(c.notes, "positive control stale (file missing): "+k.what)
				continue
			}
			src = string(data)
		}
		if !strings.Contains(src, k.old) {
			c.notes = append(c.notes, "positive control stale (anchor text changed): "+k.what)
			continue
		}
		edited[path] = strings.Replace(src, k.old, k.new, 1)
		live = append(live, k)
	}
	if len(live) == 0 {
		return
	}
	i := 0
	for path, src := range edited {
		i++
		f := filepath.Join(tmp, fmt.Sprintf("%d.go", i))
		os.WriteFile(f, []byte(src), 0o644)
		overlays[path] = f
	}
	p2, err := loadProg(c.P.Dir)
	if err != nil {
		c.notes = append(c.notes, "positive controls skipped (overlay does not type-check): "+err.Error())
		return
	}
	c2 := newCtx(p2, c.Prop, "quick")
	func() {
		defer func() { recover() }()
		ps.Run(c2)
	}()
	for _, k := range live {
		hit := false
		for _, o := range c2.Obs {
			if o.Verdict != "ok" && strings.HasPrefix(o.Key, k.expectRule) {
				hit = true
			}
		}
		c.check(hit, "CONTROL", "positive-control/"+k.expectRule, k.file, "deliberately broken instance is reported: "+k.what,
			"the rule "+k.expectRule+" did not report a deliberately broken instance ("+k.what+"): the rule is blind, its silence on the real tree proves nothing")
	}
}

package main

// E3: decision-table comparison.  A region's paths are classified into
// valuations of declared atoms and abstract outcomes; every total valuation
// admitted by a path must have the path's outcome among the reference
// outcomes for that valuation.

import (
	"fmt"
	"sort"
	"strings"
)

type atomSpec struct {
	Name string
	Dom  []string
}

type litClass struct {
	Atom   string   // "" with Ignore=true → literal is irrelevant (loop guard)
	IfTrue []string // values of the atom admitted when the literal is true
	Ignore bool
	OK     bool // classified
}

type tableSpec struct {
	Rule   string // e.g. T-TABLE(doUpdate)
	Region string // human name of region
	Atoms  []atomSpec
	// classify a literal
	Lit func(pa *Path, l Lit) litClass
	// extra constraints from the path (order atoms etc.): returns atom->allowed values
	Extra func(pa *Path) map[string][]string
	// abstract outcome of a path; err != "" → undecided with that reason
	Outcome func(pa *Path) (outcome []string, err string)
	// reference: acceptable outcomes for a total valuation (each a sorted list);
	// nil → valuation is outside the contract (anything allowed)
	Expected func(v map[string]string) [][]string
	// paths to skip entirely (e.g. loop exit)
	Skip func(pa *Path) bool
	// AllowCycle: paths ending at the revisit of an inner loop are ordinary
	AllowCycle bool
}

func canonOutcome(o []string) string {
	s := append([]string(nil), o...)
	sort.Strings(s)
	if len(s) == 0 {
		return "none"
	}
	return strings.Join(s, "; ")
}

func rowString(atoms []atomSpec, v map[string]string) string {
	var parts []string
	for _, a := range atoms {
		parts = append(parts, a.Name+"="+v[a.Name])
	}
	return strings.Join(parts, " ")
}

// runTable evaluates the spec on paths; returns number of rows (total
// valuations) checked.
func (c *Ctx) runTable(ts *tableSpec, fnLabel, pos string, paths []*Path) int {
	rowsSeen := map[string]string{} // row -> outcome
	armSeen := map[string]bool{}
	rows := 0
	c.paths += len(paths)
	for i, pa := range paths {
		if ts.Skip != nil && ts.Skip(pa) {
			continue
		}
		if pa.End.Kind == "cycle" && !ts.AllowCycle || pa.End.Kind == "panic" {
			o := c.undecided(ts.Rule, fmt.Sprintf("%s/path-ends-in-%s", fnLabel, pa.End.Kind), pos, "region "+ts.Region+" contains a path ending in "+pa.End.Kind+": shape not recognised")
			o.PathDump = dumpPath(c.P, i, pa)
			continue
		}
		allowed := map[string]map[string]bool{}
		for _, a := range ts.Atoms {
			m := map[string]bool{}
			for _, d := range a.Dom {
				m[d] = true
			}
			allowed[a.Name] = m
		}
		bad := false
		var extra []string
		for _, l := range pa.Lits {
			lc := ts.Lit(pa, l)
			if !lc.OK {
				// a condition outside the declared atoms (conditional logging, a metrics
				// guard …) is tolerated as long as the outcome does not depend on it: paths
				// that differ only in such a condition fall into the same rows, and rows with
				// two different outcomes are reported below.
				extra = append(extra, l.String())
				continue
			}
			if lc.Ignore {
				continue
			}
			keep := map[string]bool{}
			for _, v := range lc.IfTrue {
				keep[v] = true
			}
			for v := range allowed[lc.Atom] {
				if keep[v] != l.Val {
					delete(allowed[lc.Atom], v)
				}
			}
		}
		if bad {
			continue
		}
		if ts.Extra != nil {
			for atom, vals := range ts.Extra(pa) {
				keep := map[string]bool{}
				for _, v := range vals {
					keep[v] = true
				}
				for v := range allowed[atom] {
					if !keep[v] {
						delete(allowed[atom], v)
					}
				}
			}
		}
		infeasible := false
		for _, a := range ts.Atoms {
			if len(allowed[a.Name]) == 0 {
				infeasible = true
			}
		}
		if infeasible {
			continue
		}
		for v := range allowed["arm"] {
			armSeen[v] = true
		}
		outcome, oerr := ts.Outcome(pa)
		if oerr != "" {
			o := c.fail(ts.Rule, fmt.Sprintf("%s/unexpected-effect", fnLabel), pos, "in region "+ts.Region+": "+oerr)
			o.PathDump = dumpPath(c.P, i, pa)
			continue
		}
		got := canonOutcome(outcome)
		// pattern of this path: constrained atoms with their admitted values
		var pat []string
		for _, a := range ts.Atoms {
			if len(allowed[a.Name]) == len(a.Dom) {
				continue
			}
			var vs []string
			for _, d := range a.Dom {
				if allowed[a.Name][d] {
					vs = append(vs, d)
				}
			}
			pat = append(pat, a.Name+"="+strings.Join(vs, "|"))
		}
		pattern := strings.Join(pat, " ")
		if pattern == "" {
			pattern = "*"
		}
		nrows := 0
		firstBad := ""
		var expSeen []string
		// enumerate total valuations
		var enum func(k int, v map[string]string)
		enum = func(k int, v map[string]string) {
			if k == len(ts.Atoms) {
				rows++
				nrows++
				row := rowString(ts.Atoms, v)
				exp := ts.Expected(v)
				if exp == nil {
					return // outside the contract
				}
				var exps []string
				okk := false
				for _, e := range exp {
					ce := canonOutcome(e)
					exps = append(exps, ce)
					if ce == got {
						okk = true
					}
				}
				if prev, dup := rowsSeen[row]; dup && prev != got && firstBad == "" {
					firstBad = fmt.Sprintf("two paths of region %s give different outcomes for the abstract input [%s]: {%s} vs {%s} — the behaviour depends on a condition outside the declared atoms %v", ts.Region, row, prev, got, extra)
					return
				}
				rowsSeen[row] = got
				if !okk && firstBad == "" {
					firstBad = fmt.Sprintf("region %s, abstract input [%s]: reference requires {%s}, implementation does {%s}", ts.Region, row, strings.Join(exps, " | "), got)
					if len(extra) > 0 {
						firstBad += fmt.Sprintf(" (on a path taken under the additional condition(s) %v)", extra)
					}
				}
				if len(expSeen) < 3 {
					expSeen = append(expSeen, strings.Join(exps, " | "))
				}
				return
			}
			a := ts.Atoms[k]
			for _, d := range a.Dom {
				if allowed[a.Name][d] {
					v[a.Name] = d
					enum(k+1, v)
				}
			}
			delete(v, a.Name)
		}
		enum(0, map[string]string{})
		key := fnLabel + "/case[" + pattern + "]"
		if firstBad == "" {
			c.ok(ts.Rule, key, pos, fmt.Sprintf("%d abstract inputs; does {%s}", nrows, got))
		} else {
			o := c.fail(ts.Rule, key, pos, firstBad)
			o.PathDump = dumpPath(c.P, i, pa)
		}
	}
	// completeness: a table only judges the paths that exist, so an arm of the reference that
	// has no path at all (its select case was removed) must be reported separately
	for _, a := range ts.Atoms {
		if a.Name != "arm" || len(paths) == 0 {
			continue
		}
		for _, d := range a.Dom {
			if armSeen[d] {
				continue
			}
			// is the arm part of the contract (some valuation with it has a required outcome)?
			inContract := false
			var enum func(k int, v map[string]string)
			enum = func(k int, v map[string]string) {
				if inContract {
					return
				}
				if k == len(ts.Atoms) {
					if exp := ts.Expected(v); exp != nil {
						for _, e := range exp {
							// an outcome spelled as one ALL-CAPS marker means "this arm must not exist"
							if len(e) > 0 && !(len(e) == 1 && strings.ToUpper(e[0]) == e[0]) {
								inContract = true
							}
						}
					}
					return
				}
				if ts.Atoms[k].Name == "arm" {
					v["arm"] = d
					enum(k+1, v)
					return
				}
				for _, x := range ts.Atoms[k].Dom {
					v[ts.Atoms[k].Name] = x
					enum(k+1, v)
				}
			}
			enum(0, map[string]string{})
			if inContract {
				c.fail(ts.Rule, fnLabel+"/arm["+d+"]/present", pos, "region "+ts.Region+": the reference has an arm `"+d+"` with required effects, but no path of the implementation takes it (the select case is gone or can never be chosen)")
			} else {
				continue
			}
		}
		for _, d := range a.Dom {
			if armSeen[d] {
				c.ok(ts.Rule, fnLabel+"/arm["+d+"]/present", pos, "arm has at least one path")
			}
		}
	}
	return rows
}

func atomNames(as []atomSpec) []string {
	var out []string
	for _, a := range as {
		out = append(out, a.Name)
	}
	return out
}

var boolDom = []string{"T", "F"}

func tf(b bool) string {
	if b {
		return "T"
	}
	return "F"
}

func relVals(m int) []string {
	var out []string
	if m&relLT != 0 {
		out = append(out, "LT")
	}
	if m&relEQ != 0 {
		out = append(out, "EQ")
	}
	if m&relGT != 0 {
		out = append(out, "GT")
	}
	return out
}

package main

// Cache rules: decision tables of doUpdate / doSync (item step and sweep),
// doRefilter flow, run-loop dispatch, key and read discipline, single owner.
// Shared by C01, C02, C07, C15.

import (
	"fmt"
	"go/token"
	"go/types"
	"strings"

	"golang.org/x/tools/go/ssa"
)

type cacheModel struct {
	c                               *Ctx
	litCreate, litUpdate, litDelete string
}

func newCacheModel(c *Ctx) *cacheModel {
	m := &cacheModel{c: c}
	var ok1, ok2, ok3 bool
	m.litCreate, ok1 = c.P.constLit("", "EventTypeCreate")
	m.litUpdate, ok2 = c.P.constLit("", "EventTypeUpdate")
	m.litDelete, ok3 = c.P.constLit("", "EventTypeDelete")
	if !ok1 || !ok2 || !ok3 {
		c.undecided("ANCHOR", "EventType constants", "-", "EventTypeCreate/Update/Delete constants not found")
	}
	return m
}

// ---- recognisers over terms (obj = the incoming object term) ----

func isItemsField(t *Term) bool  { return t.IsRecvField("items") }
func isFilterField(t *Term) bool { return t.IsRecvField("filter") }

// keyOf: t is cacheKey{obj.GetNamespace(), obj.GetName()} ; returns obj.
func keyOf(t *Term) (*Term, bool) {
	if t == nil || t.K != "struct" || t.S != "cacheKey" || len(t.A) != 2 {
		return nil, false
	}
	o1, _, ok1 := isInvoke(t.A[0], "GetNamespace")
	o2, _, ok2 := isInvoke(t.A[1], "GetName")
	if ok1 && ok2 && sameTerm(o1, o2) {
		return o1, true
	}
	return nil, false
}

// versionOf: t is the int result of strconv.Atoi(obj.GetResourceVersion()); returns obj.
func versionOf(t *Term) (*Term, bool) {
	if t == nil || t.K != "extract" || t.S != "0" {
		return nil, false
	}
	return atoiOf(t.A[0])
}

func atoiOf(t *Term) (*Term, bool) {
	args, ok := isCall(t, "strconv.Atoi")
	if !ok || len(args) != 1 {
		return nil, false
	}
	o, _, ok := isInvoke(args[0], "GetResourceVersion")
	return o, ok
}

// atoiErrOf: t is the error result of that Atoi; returns obj.
func atoiErrOf(t *Term) (*Term, bool) {
	if t == nil || t.K != "extract" || t.S != "1" {
		return nil, false
	}
	return atoiOf(t.A[0])
}

// entryOf: t is cacheEntry{version(obj), obj}; returns obj.
func entryOf(t *Term) (*Term, bool) {
	if t == nil || t.K != "struct" || t.S != "cacheEntry" || len(t.A) != 2 {
		return nil, false
	}
	o, ok := versionOf(t.A[0])
	if ok && sameTerm(o, t.A[1]) {
		return o, true
	}
	return nil, false
}

// lookupItems: t is the value (#0) of c.items[KEY(obj)]; returns obj.
func lookupItems(t *Term) (*Term, bool) {
	if t == nil || t.K != "lookup" || !isItemsField(t.A[0]) {
		return nil, false
	}
	return keyOf(t.A[1])
}

// newEventOf: t is NewEvent(<lit>, x); returns lit, x.
func newEventOf(t *Term) (string, *Term, bool) {
	args, ok := isCall(t, "NewEvent")
	if !ok || len(args) != 2 || args[0].K != "const" {
		return "", nil, false
	}
	return args[0].S, args[1], true
}

func (m *cacheModel) evName(lit string) string {
	switch lit {
	case m.litCreate:
		return "create"
	case m.litUpdate:
		return "update"
	case m.litDelete:
		return "delete"
	}
	return "type" + lit
}

// ---------- doUpdate ----------

func (m *cacheModel) checkDoUpdate() {
	c := m.c
	fn := c.mustFunc("", "_cache.doUpdate")
	if fn == nil {
		return
	}
	rule := "T-TABLE(doUpdate)"
	w := &Walker{P: c.P, Inline: autoInline(c.P, fn, 16)}
	paths := w.FuncRegion(fn)
	if w.Truncated {
		c.undecided(rule, "doUpdate/too-many-paths", c.P.fnPos(fn), "path limit exceeded")
		return
	}
	if len(fn.Params) != 2 {
		c.undecided(rule, "doUpdate/signature", c.P.fnPos(fn), "expected (c *_cache, evt Event)")
		return
	}
	evtName := fn.Params[1].Name()
	isEvt := func(t *Term) bool { return t != nil && t.K == "param" && t.S == evtName }
	isObj := func(t *Term) bool {
		r, _, ok := isInvoke(t, "Resource")
		return ok && isEvt(r)
	}
	isKey := func(t *Term) bool { o, ok := keyOf(t); return ok && isObj(o) }
	isCur := func(t *Term) bool { o, ok := lookupItems(t); return ok && isObj(o) }

	ts := &tableSpec{
		Rule:   rule,
		Region: "doUpdate (whole function)",
		Atoms:  []atomSpec{{"parseOK", boolDom}, {"isDelete", boolDom}, {"found", boolDom}, {"accNew", boolDom}, {"ord", []string{"LT", "EQ", "GT"}}},
		Lit: func(pa *Path, l Lit) litClass {
			t := l.T
			if x, ok := isNilTest(t); ok {
				if o, ok := atoiErrOf(x); ok && isObj(o) {
					return litClass{Atom: "parseOK", IfTrue: []string{"T"}, OK: true}
				}
			}
			if x, ok := eqConst(t, m.litDelete); ok {
				if r, _, ok := isInvoke(x, "Type"); ok && isEvt(r) {
					return litClass{Atom: "isDelete", IfTrue: []string{"T"}, OK: true}
				}
			}
			if t.K == "lookupok" && isCur(t.A[0]) {
				return litClass{Atom: "found", IfTrue: []string{"T"}, OK: true}
			}
			if r, args, ok := isInvoke(t, "Accept"); ok && isFilterField(r) && len(args) == 1 && isObj(args[0]) {
				return litClass{Atom: "accNew", IfTrue: []string{"T"}, OK: true}
			}
			if t.K == "binop" && (t.S == "<" || t.S == "==") && m.isVersionPair(t.A[0], t.A[1], isCur, isObj) {
				return litClass{Ignore: true, OK: true} // handled through the order relation
			}
			return litClass{}
		},
		Extra: func(pa *Path) map[string][]string {
			return map[string][]string{"ord": m.ordOnPath(pa, isCur, isObj)}
		},
		Outcome: func(pa *Path) ([]string, string) {
			var out []string
			var emitted []*Term
			for _, e := range pa.Effects {
				switch e.Kind {
				case "invoke", "call":
					if e.IsPure() {
						continue
					}
					if e.Kind == "invoke" && e.Method == "Accept" && isFilterField(e.Recv) {
						if len(e.Args) == 1 && isObj(e.Args[0]) {
							continue
						}
						return nil, "filter.Accept applied to " + e.Args[0].Key() + " (only the incoming object may be filtered here)"
					}
					return nil, "unexpected call in cache update step: " + e.String()
				case "append":
					if len(e.Args) != 2 {
						return nil, "append of other than one element: " + e.String()
					}
					el := e.Args[1]
					emitted = append(emitted, el)
					if isEvt(el) {
						// the incoming event passed through: its type is evt.Type()
						d, known := litVal(pa, (&Term{K: "binop", S: "==", A: orderPair(&Term{K: "const", S: m.litDelete}, &Term{K: "invoke", S: "Type", A: []*Term{{K: "param", S: evtName}}})}).Key())
						if known && d {
							out = append(out, "emit(delete,new)")
						} else {
							out = append(out, "emit(incoming-event-type,new)")
						}
						continue
					}
					lit, x, ok := newEventOf(el)
					if !ok {
						return nil, "appended element is not an Event built here: " + el.Key()
					}
					switch {
					case isObj(x):
						out = append(out, "emit("+m.evName(lit)+",new)")
					case x.IsField("object") && isCur(x.A[0]):
						out = append(out, "emit("+m.evName(lit)+",cached)")
					default:
						return nil, "event carries an object that is neither the incoming nor the cached one: " + x.Key()
					}
				case "mapupdate":
					if !isItemsField(e.Addr) {
						return nil, "map update of something other than c.items: " + e.String()
					}
					if !isKey(e.Args[0]) {
						out = append(out, "store(items,WRONG-KEY)")
						continue
					}
					if o, ok := entryOf(e.Val); ok && isObj(o) {
						out = append(out, "store(items,key,new@version)")
					} else {
						out = append(out, "store(items,key,OTHER:"+e.Val.Key()+")")
					}
				case "mapdelete":
					if !isItemsField(e.Addr) {
						return nil, "delete from something other than c.items: " + e.String()
					}
					if isKey(e.Args[0]) {
						out = append(out, "remove(items,key)")
					} else {
						out = append(out, "remove(items,WRONG-KEY)")
					}
				case "store":
					return nil, "store to shared state in cache update step: " + e.String()
				case "rundefers":
				default:
					return nil, "unexpected effect in cache update step: " + e.String()
				}
			}
			// the function must return exactly the emitted events, in order
			if pa.End.Kind == "return" && len(pa.End.Results) == 1 {
				_, elems := flattenAppend(pa.End.Results[0])
				if len(elems) != len(emitted) {
					return nil, fmt.Sprintf("returns %d events but built %d", len(elems), len(emitted))
				}
				for i := range elems {
					if !sameTerm(elems[i], emitted[i]) {
						return nil, "returned events differ from the ones built"
					}
				}
			} else {
				return nil, "does not end in a single-value return"
			}
			return out, ""
		},
		Expected: func(v map[string]string) [][]string {
			none := [][]string{{}}
			if v["parseOK"] == "F" {
				return none
			}
			if v["isDelete"] == "T" {
				if v["found"] == "F" {
					return none
				}
				del := [][]string{{"remove(items,key)", "emit(delete,new)"}, {"remove(items,key)", "emit(delete,cached)"}}
				if v["ord"] == "GT" { // cached is newer than the delete: unspecified
					return append(del, []string{})
				}
				return del
			}
			switch {
			case v["found"] == "F" && v["accNew"] == "F":
				return none
			case v["found"] == "F" && v["accNew"] == "T":
				return [][]string{{"store(items,key,new@version)", "emit(create,new)"}}
			case v["found"] == "T" && v["ord"] == "LT" && v["accNew"] == "T":
				return [][]string{{"store(items,key,new@version)", "emit(update,new)"}}
			case v["found"] == "T" && v["ord"] == "LT" && v["accNew"] == "F":
				return [][]string{{"remove(items,key)", "emit(delete,new)"}, {"remove(items,key)", "emit(delete,cached)"}}
			default: // found, cached version >= incoming
				return none
			}
		},
	}
	rows := c.runTable(ts, "doUpdate", c.P.fnPos(fn), paths)
	c.notes = append(c.notes, fmt.Sprintf("doUpdate: %d paths, %d abstract rows", len(paths), rows))
}

func orderPair(a, b *Term) []*Term {
	if a.Key() > b.Key() {
		return []*Term{b, a}
	}
	return []*Term{a, b}
}

// isVersionPair: {a,b} = {cur.version, version(obj)}
func (m *cacheModel) isVersionPair(a, b *Term, isCur, isObj func(*Term) bool) bool {
	isCurV := func(t *Term) bool { return t.IsField("version") && isCur(t.A[0]) }
	isNewV := func(t *Term) bool { o, ok := versionOf(t); return ok && isObj(o) }
	return isCurV(a) && isNewV(b) || isCurV(b) && isNewV(a)
}

// ordOnPath: relation cached.version ? incoming.version admitted by the path.
func (m *cacheModel) ordOnPath(pa *Path, isCur, isObj func(*Term) bool) []string {
	for k, mask := range pa.Rel {
		parts := strings.SplitN(k, " ? ", 2)
		_ = parts
		_ = mask
	}
	// find the pair among the literals
	for _, l := range pa.Lits {
		t := l.T
		if t.K == "binop" && (t.S == "<" || t.S == "==") {
			a, b := t.A[0], t.A[1]
			if m.isVersionPair(a, b, isCur, isObj) {
				cur, nw := a, b
				if !(cur.IsField("version")) {
					cur, nw = b, a
				}
				return relVals(relBetween(pa, cur, nw))
			}
		}
	}
	return []string{"LT", "EQ", "GT"}
}

// ---------- doSync ----------

func (m *cacheModel) checkDoSync() {
	c := m.c
	fn := c.mustFunc("", "_cache.doSync")
	if fn == nil {
		return
	}
	pos := c.P.fnPos(fn)
	// the two loops — one over the listed objects, one over c.items — may each live in doSync
	// itself or in a private helper doSync calls once, outside any loop
	type part struct {
		host *ssa.Function
		loop *Loop
		call *ssa.Call // nil when the loop is in doSync itself
	}
	var item, sweep *part
	classify := func(host *ssa.Function, call *ssa.Call) {
		for _, l := range findLoops(host) {
			kind := ""
			for b := range l.Body {
				for _, in := range b.Instrs {
					if r, ok := in.(*ssa.Next); ok {
						if rg, ok := r.Iter.(*ssa.Range); ok {
							if _, ok := rg.X.Type().Underlying().(*types.Map); ok {
								kind = "map"
							}
						}
					}
				}
			}
			pt := &part{host, l, call}
			if kind == "map" {
				if sweep != nil {
					c.undecided("T-TABLE(doSync.sweep)", "doSync/two-map-loops", pos, "more than one loop over a map")
				}
				sweep = pt
			} else {
				if item != nil {
					c.undecided("T-TABLE(doSync.item)", "doSync/two-list-loops", pos, "more than one list loop")
				}
				item = pt
			}
		}
	}
	classify(fn, nil)
	ncalls := map[*ssa.Function]int{}
	var hcalls []*ssa.Call
	for _, b := range fn.Blocks {
		for _, in := range b.Instrs {
			if call, ok := in.(*ssa.Call); ok {
				if g := call.Call.StaticCallee(); g != nil && g != fn && g.Pkg == fn.Pkg && g.Blocks != nil && c.P.ownerClosure(fn)[g] && len(findLoops(g)) > 0 {
					ncalls[g]++
					hcalls = append(hcalls, call)
				}
			}
		}
	}
	for _, call := range hcalls {
		if g := call.Call.StaticCallee(); ncalls[g] == 1 && !inLoop(fn, call.Block()) {
			classify(g, call)
		}
	}
	if item == nil || sweep == nil {
		c.undecided("T-TABLE(doSync.item)", "doSync/shape", pos, "doSync is not `for list {…}; for items {…}`")
		return
	}
	// order: the sweep starts only after the list loop has finished
	after := func(x, y *ssa.BasicBlock, xi, yi int) bool { // y strictly after x on every path
		if x == y {
			return yi > xi
		}
		return x.Dominates(y)
	}
	idxOf := func(call *ssa.Call) int {
		for i, in := range call.Block().Instrs {
			if in == ssa.Instruction(call) {
				return i
			}
		}
		return -1
	}
	ordered := false
	switch {
	case item.call == nil && sweep.call == nil:
		ordered = !(item.loop.Header.Index > sweep.loop.Header.Index || item.loop.Body[sweep.loop.Header] || sweep.loop.Body[item.loop.Header])
	case item.call == nil:
		ordered = !item.loop.Body[sweep.call.Block()] && item.loop.Header.Dominates(sweep.call.Block())
	case sweep.call == nil:
		ordered = !sweep.loop.Body[item.call.Block()] && item.call.Block().Dominates(sweep.loop.Header)
	default:
		ordered = after(item.call.Block(), sweep.call.Block(), idxOf(item.call), idxOf(sweep.call))
	}
	if !ordered {
		c.undecided("T-TABLE(doSync.item)", "doSync/loop-order", pos, "the sweep must follow the list loop and not nest with it")
		return
	}
	// the sweep's working set is the list loop's: same local map, handed over unchanged
	setOK, setWhy := true, ""
	onlyMakeMap := func(f *ssa.Function) *ssa.MakeMap {
		var mm *ssa.MakeMap
		n := 0
		for _, b := range f.Blocks {
			for _, in := range b.Instrs {
				if x, ok := in.(*ssa.MakeMap); ok {
					mm = x
					n++
				}
			}
		}
		if n == 1 {
			return mm
		}
		return nil
	}
	// value of the item part's working set as seen in doSync
	var setInFn ssa.Value
	if item.call == nil {
		if mm := onlyMakeMap(fn); mm != nil {
			setInFn = mm
		}
	} else {
		mm := onlyMakeMap(item.host)
		for _, b := range item.host.Blocks {
			if r, ok := b.Instrs[len(b.Instrs)-1].(*ssa.Return); ok && mm != nil {
				for k, res := range r.Results {
					if res == ssa.Value(mm) {
						for _, ref := range *item.call.Referrers() {
							if ex, ok := ref.(*ssa.Extract); ok && ex.Index == k {
								setInFn = ex
							}
						}
						if len(r.Results) == 1 {
							setInFn = item.call
						}
					}
				}
			}
		}
	}
	if setInFn == nil {
		setOK, setWhy = false, "cannot identify the working set built by the list loop"
	} else if sweep.call != nil {
		found := false
		for i, p := range sweep.host.Params {
			if _, ok := p.Type().Underlying().(*types.Map); ok && i < len(sweep.call.Call.Args) {
				a := sweep.call.Call.Args[i]
				if ld, ok := a.(*ssa.UnOp); ok && ld.Op == token.MUL {
					a = storedValue(ld.X)
				}
				if a == setInFn {
					found = true
				} else {
					setOK, setWhy = false, "the sweep helper is not given the working set built by the list loop"
				}
			}
		}
		if !found && setOK {
			setOK, setWhy = false, "the sweep helper takes no working set"
		}
	}
	if item.call != nil || sweep.call != nil {
		c.check(setOK, "T-TABLE(doSync.sweep)", "doSync/sweep-uses-the-list-loop's-working-set", pos, "", "doSync: "+setWhy)
		c.useFn(item.host)
		c.useFn(sweep.host)
	}
	// every way out of doSync goes through the sweep: no return between the list loop and the
	// sweep ("stale list: skip the pruning" would leave vanished objects cached)
	mustPass := true
	var gate *ssa.BasicBlock
	if sweep.call == nil {
		gate = sweep.loop.Header
	} else {
		gate = sweep.call.Block()
	}
	for _, b := range fn.Blocks {
		if _, isRet := b.Instrs[len(b.Instrs)-1].(*ssa.Return); isRet && !gate.Dominates(b) {
			mustPass = false
		}
	}
	if sweep.call != nil {
		// and inside the helper every return follows its loop
		for _, b := range sweep.host.Blocks {
			if _, isRet := b.Instrs[len(b.Instrs)-1].(*ssa.Return); isRet && !sweep.loop.Header.Dominates(b) {
				mustPass = false
			}
		}
	}
	c.check(mustPass, "T-TABLE(doSync.sweep)", "doSync/every-exit-after-the-sweep", pos, "the sweep dominates every return", "doSync can return without sweeping c.items for entries missing from the list: objects that vanished stay cached and no delete event is emitted")
	m.checkSyncItem(item.host, item.loop)
	m.checkSyncSweep(sweep.host, sweep.loop)
	m.checkSyncReturn(fn)
}

// workingSet recognises the local map used as the set of surviving keys.
func isLocalMap(t *Term) bool {
	if t == nil {
		return false
	}
	if t.K == "makemap" {
		return true
	}
	// the working set returned by the private helper that ran the list loop (checked by
	// doSync/sweep-uses-the-list-loop's-working-set)
	if t.K == "extract" && len(t.A) == 1 && t.A[0].K == "call" {
		if t.V != nil {
			if _, isMap := t.V.Type().Underlying().(*types.Map); isMap {
				return true
			}
		}
	}
	// the working set handed to a private helper
	if p, ok := t.V.(*ssa.Parameter); ok && t.K == "param" {
		_, isMap := p.Type().Underlying().(*types.Map)
		return isMap
	}
	return false
}

func (m *cacheModel) checkSyncItem(fn *ssa.Function, loop *Loop) {
	c := m.c
	rule := "T-TABLE(doSync.item)"
	pos := c.P.pos(loop.Header.Instrs[0].Pos())
	if !loop.Header.Instrs[0].Pos().IsValid() {
		pos = c.P.fnPos(fn)
	}
	w := &Walker{P: c.P, Inline: autoInline(c.P, fn, 16), PhiNames: phiRoles(loop.Header, map[string]func(*ssa.Phi) bool{"events": phiTypeIs("[]Event")})}
	paths := w.LoopRegion(fn, loop)
	if w.Truncated {
		c.undecided(rule, "doSync/too-many-paths", pos, "path limit exceeded")
		return
	}
	listName := fn.Params[1].Name()
	// obj = list[i] for the loop's index expression
	isObj := func(t *Term) bool {
		return t != nil && t.K == "index" && t.A[0].K == "param" && t.A[0].S == listName
	}
	isKey := func(t *Term) bool { o, ok := keyOf(t); return ok && isObj(o) }
	isCur := func(t *Term) bool { o, ok := lookupItems(t); return ok && isObj(o) }
	ts := &tableSpec{
		Rule:   rule,
		Region: "doSync, one list element",
		Atoms:  []atomSpec{{"entryOK", boolDom}, {"found", boolDom}, {"accNew", boolDom}, {"accCur", boolDom}, {"ord", []string{"LT", "EQ", "GT"}}},
		Skip:   func(pa *Path) bool { return pa.End.Kind == "stop" && !loop.Body[pa.End.Block] },
		Lit: func(pa *Path, l Lit) litClass {
			t := l.T
			// loop guard: i < len(list)
			if t.K == "binop" && t.S == "<" && t.A[1].K == "len" && t.A[1].A[0].K == "param" && t.A[1].A[0].S == listName {
				return litClass{Ignore: true, OK: true}
			}
			if x, ok := isNilTest(t); ok {
				if o, ok := atoiErrOf(x); ok && isObj(o) {
					return litClass{Atom: "entryOK", IfTrue: []string{"T"}, OK: true}
				}
			}
			if t.K == "lookupok" && isCur(t.A[0]) {
				return litClass{Atom: "found", IfTrue: []string{"T"}, OK: true}
			}
			if r, args, ok := isInvoke(t, "Accept"); ok && isFilterField(r) && len(args) == 1 {
				if isObj(args[0]) {
					return litClass{Atom: "accNew", IfTrue: []string{"T"}, OK: true}
				}
				if args[0].IsField("object") && isCur(args[0].A[0]) {
					return litClass{Atom: "accCur", IfTrue: []string{"T"}, OK: true}
				}
			}
			if t.K == "binop" && (t.S == "<" || t.S == "==") && m.isVersionPair(t.A[0], t.A[1], isCur, isObj) {
				return litClass{Ignore: true, OK: true}
			}
			return litClass{}
		},
		Extra: func(pa *Path) map[string][]string {
			return map[string][]string{"ord": m.ordOnPath(pa, isCur, isObj)}
		},
		Outcome: func(pa *Path) ([]string, string) {
			var out []string
			var emitted []*Term
			found, foundKnown := false, false
			for _, l := range pa.Lits {
				if l.T.K == "lookupok" && isCur(l.T.A[0]) {
					found, foundKnown = l.Val, true
				}
			}
			for _, e := range pa.Effects {
				switch e.Kind {
				case "invoke", "call":
					if e.Kind == "invoke" && e.Method == "Accept" && isFilterField(e.Recv) && len(e.Args) == 1 {
						a := e.Args[0]
						if isObj(a) {
							continue
						}
						if a.IsField("object") && isCur(a.A[0]) {
							// the cached entry's object may only be filtered when the entry exists
							if !(foundKnown && found) {
								return nil, "filter.Accept is applied to the cached entry's object on a path where the key is not known to be present (zero entry: nil object)"
							}
							continue
						}
						return nil, "filter.Accept applied to " + a.Key()
					}
					if e.IsPure() {
						continue
					}
					return nil, "unexpected call in sync item step: " + e.String()
				case "append":
					if len(e.Args) != 2 {
						return nil, "append of other than one element: " + e.String()
					}
					el := e.Args[1]
					emitted = append(emitted, el)
					lit, x, ok := newEventOf(el)
					if !ok {
						return nil, "appended element is not an Event built here: " + el.Key()
					}
					switch {
					case isObj(x):
						out = append(out, "emit("+m.evName(lit)+",new)")
					case x.IsField("object") && isCur(x.A[0]):
						out = append(out, "emit("+m.evName(lit)+",cached)")
					default:
						return nil, "event carries an unexpected object: " + x.Key()
					}
				case "mapupdate":
					switch {
					case isItemsField(e.Addr):
						if !isKey(e.Args[0]) {
							out = append(out, "store(items,WRONG-KEY)")
						} else if o, ok := entryOf(e.Val); ok && isObj(o) {
							out = append(out, "store(items,key,new@version)")
						} else {
							out = append(out, "store(items,key,OTHER:"+e.Val.Key()+")")
						}
					case isLocalMap(e.Addr):
						if isKey(e.Args[0]) {
							out = append(out, "inset(key)")
						} else {
							out = append(out, "inset(WRONG-KEY)")
						}
					default:
						return nil, "map update of an unknown map: " + e.String()
					}
				case "mapdelete":
					if isItemsField(e.Addr) {
						out = append(out, "remove(items)")
					} else {
						return nil, "delete from unknown map: " + e.String()
					}
				case "store":
					return nil, "store to shared state in sync item step: " + e.String()
				default:
					return nil, "unexpected effect in sync item step: " + e.String()
				}
			}
			// loop-carried events slice must be exactly old events + emitted
			nx, ok := pa.PhiNext["events"]
			if !ok {
				// find any phi whose next is an append chain
				for _, v := range pa.PhiNext {
					if v.K == "append" {
						nx, ok = v, true
					}
				}
			}
			if len(emitted) > 0 {
				if !ok {
					return nil, "built events are not carried to the next iteration"
				}
				base, elems := flattenAppend(nx)
				if base.K != "phi" || len(elems) != len(emitted) {
					return nil, "loop-carried event list is not old list + built events"
				}
				for i := range elems {
					if !sameTerm(elems[i], emitted[i]) {
						return nil, "loop-carried events differ from the ones built"
					}
				}
			} else if ok && nx.K != "phi" {
				return nil, "loop-carried event list changes without an event being built: " + nx.Key()
			}
			return out, ""
		},
		Expected: func(v map[string]string) [][]string {
			none := [][]string{{}}
			if v["entryOK"] == "F" {
				return none
			}
			if v["found"] == "F" {
				if v["accNew"] == "T" {
					return [][]string{{"store(items,key,new@version)", "emit(create,new)", "inset(key)"}}
				}
				return none
			}
			if v["ord"] == "LT" {
				if v["accNew"] == "T" {
					return [][]string{{"store(items,key,new@version)", "emit(update,new)", "inset(key)"}}
				}
				return none // not in set: removed by the sweep
			}
			if v["accCur"] == "T" {
				return [][]string{{"inset(key)"}}
			}
			return none
		},
	}
	rows := c.runTable(ts, "doSync.item", pos, paths)
	c.notes = append(c.notes, fmt.Sprintf("doSync item loop: %d paths, %d abstract rows", len(paths), rows))
}

func (m *cacheModel) checkSyncSweep(fn *ssa.Function, loop *Loop) {
	c := m.c
	rule := "T-TABLE(doSync.sweep)"
	pos := c.P.fnPos(fn)
	w := &Walker{P: c.P, Inline: autoInline(c.P, fn, 16)}
	paths := w.LoopRegion(fn, loop)
	isNextOfItems := func(t *Term) bool {
		return t != nil && t.K == "next" && t.A[0].K == "range" && isItemsField(t.A[0].A[0])
	}
	isK := func(t *Term) bool { return t != nil && t.K == "extract" && t.S == "1" && isNextOfItems(t.A[0]) }
	isV := func(t *Term) bool { return t != nil && t.K == "extract" && t.S == "2" && isNextOfItems(t.A[0]) }
	ts := &tableSpec{
		Rule:   rule,
		Region: "doSync, sweep over c.items",
		Atoms:  []atomSpec{{"more", boolDom}, {"inSet", boolDom}},
		Lit: func(pa *Path, l Lit) litClass {
			t := l.T
			if t.K == "extract" && t.S == "0" && isNextOfItems(t.A[0]) {
				return litClass{Atom: "more", IfTrue: []string{"T"}, OK: true}
			}
			if t.K == "lookupok" && t.A[0].K == "lookup" && isLocalMap(t.A[0].A[0]) && isK(t.A[0].A[1]) {
				return litClass{Atom: "inSet", IfTrue: []string{"T"}, OK: true}
			}
			return litClass{}
		},
		Outcome: func(pa *Path) ([]string, string) {
			var out []string
			for _, e := range pa.Effects {
				switch e.Kind {
				case "invoke", "call":
					if e.IsPure() {
						continue
					}
					return nil, "unexpected call in sweep: " + e.String()
				case "append":
					lit, x, ok := newEventOf(e.Args[1])
					if !ok || len(e.Args) != 2 {
						return nil, "unexpected append in sweep: " + e.String()
					}
					if x.IsField("object") && isV(x.A[0]) {
						out = append(out, "emit("+m.evName(lit)+",cached)")
					} else {
						return nil, "sweep event carries " + x.Key() + " instead of the cached object"
					}
				case "mapdelete":
					if isItemsField(e.Addr) && isK(e.Args[0]) {
						out = append(out, "remove(items,k)")
					} else {
						return nil, "unexpected delete in sweep: " + e.String()
					}
				case "mapupdate", "store":
					return nil, "unexpected write in sweep: " + e.String()
				default:
					return nil, "unexpected effect in sweep: " + e.String()
				}
			}
			if pa.End.Kind == "stop" && !loop.Body[pa.End.Block] {
				out = append(out, "exit")
			}
			return out, ""
		},
		Expected: func(v map[string]string) [][]string {
			if v["more"] == "F" {
				return [][]string{{"exit"}}
			}
			if v["inSet"] == "T" {
				return [][]string{{}}
			}
			return [][]string{{"emit(delete,cached)", "remove(items,k)"}}
		},
	}
	rows := c.runTable(ts, "doSync.sweep", pos, paths)
	c.notes = append(c.notes, fmt.Sprintf("doSync sweep loop: %d paths, %d abstract rows", len(paths), rows))
}

// checkSyncReturn: the returned slice is the φ-closure of all appends in the
// function; nothing else is returned and no append is lost.  Also: between
// the loops and after the sweep no write to c.items happens outside the
// loops' own tables (any store to the field itself is a violation).
func (m *cacheModel) checkSyncReturn(fn *ssa.Function) {
	c := m.c
	rule := "T-FLOW(doSync.return)"
	pos := c.P.fnPos(fn)
	owned := func(g *ssa.Function) bool {
		return g != nil && g.Pkg == fn.Pkg && g.Blocks != nil && g != fn && c.P.ownerClosure(fn)[g]
	}
	involved := map[*ssa.Function]bool{fn: true}
	reach := map[ssa.Value]bool{}
	isAppend := func(v ssa.Value) bool {
		call, ok := v.(*ssa.Call)
		if !ok {
			return false
		}
		bi, ok := call.Call.Value.(*ssa.Builtin)
		return ok && bi.Name() == "append"
	}
	isSlice := func(t types.Type) bool { _, ok := t.Underlying().(*types.Slice); return ok }
	var visit func(v ssa.Value) bool
	// result k of helper g is the closure of g's appends over the event list it was given
	helperResult := func(call *ssa.Call, k int) bool {
		g := call.Call.StaticCallee()
		if !owned(g) {
			return false
		}
		involved[g] = true
		var rt types.Type = call.Type()
		if tup, ok := rt.(*types.Tuple); ok && k < tup.Len() {
			rt = tup.At(k).Type()
		}
		for _, a := range call.Call.Args {
			if isSlice(a.Type()) && types.Identical(a.Type(), rt) && !visit(a) {
				return false
			}
		}
		n := 0
		for _, b := range g.Blocks {
			if r, ok := b.Instrs[len(b.Instrs)-1].(*ssa.Return); ok {
				n++
				if k >= len(r.Results) || !visit(r.Results[k]) {
					return false
				}
			}
		}
		return n > 0
	}
	visit = func(v ssa.Value) bool {
		if reach[v] {
			return true
		}
		reach[v] = true
		switch x := v.(type) {
		case *ssa.Phi:
			for _, e := range x.Edges {
				if !visit(e) {
					return false
				}
			}
			return true
		case *ssa.Call:
			if isAppend(x) {
				return visit(x.Call.Args[0])
			}
			return helperResult(x, 0)
		case *ssa.Extract:
			if call, ok := x.Tuple.(*ssa.Call); ok {
				return helperResult(call, x.Index)
			}
			return false
		case *ssa.Const:
			return x.Value == nil
		case *ssa.MakeSlice, *ssa.Slice:
			return true
		case *ssa.Parameter:
			// the event list handed to a private helper (the argument is visited at the call)
			return isSlice(x.Type()) && x.Parent() != fn
		}
		return false
	}
	ok := true
	nret := 0
	for _, b := range fn.Blocks {
		if r, isRet := b.Instrs[len(b.Instrs)-1].(*ssa.Return); isRet {
			nret++
			if len(r.Results) != 1 || !visit(r.Results[0]) {
				ok = false
			}
		}
	}
	if nret == 0 {
		ok = false
	}
	// every private helper doSync calls that builds events takes part: its appends must reach the result too
	for _, b := range fn.Blocks {
		for _, in := range b.Instrs {
			if call, isCall := in.(*ssa.Call); isCall {
				if g := call.Call.StaticCallee(); owned(g) && !involved[g] {
					for _, gb := range g.Blocks {
						for _, gi := range gb.Instrs {
							if ac, ok := gi.(*ssa.Call); ok && isAppend(ac) && types.Identical(ac.Type(), fn.Signature.Results().At(0).Type()) {
								involved[g] = true
							}
						}
					}
				}
			}
		}
	}
	nappend := 0
	for g := range involved {
		c.useFn(g)
		for _, b := range g.Blocks {
			for _, in := range b.Instrs {
				if call, isCall := in.(*ssa.Call); isCall && isAppend(call) {
					nappend++
					if !reach[call] {
						ok = false
					}
				}
				if st, isStore := in.(*ssa.Store); isStore {
					if fa, isFA := st.Addr.(*ssa.FieldAddr); isFA {
						name := structFieldName(fa.X.Type(), fa.Field)
						if name == "items" || name == "filter" {
							c.fail("T-TABLE(doSync.item)", "doSync/store-to-"+name, c.P.instrPos(in), "doSync assigns the cache field `"+name+"` itself; the reference only updates/deletes individual keys (a wholesale replacement bypasses the version/filter table)")
						}
					}
				}
			}
		}
	}
	c.check(ok, rule, "doSync/returns-all-built-events", pos,
		fmt.Sprintf("return value is the closure of the %d appends", nappend),
		"doSync does not return exactly the list of events it built (an append is lost, or something else is returned)")
}

// ---------- doRefilter ----------

func (m *cacheModel) checkDoRefilter() {
	c := m.c
	fn := c.mustFunc("", "_cache.doRefilter")
	sync := c.P.Func("", "_cache.doSync")
	if fn == nil || sync == nil {
		return
	}
	rule := "T-FLOW(doRefilter)"
	pos := c.P.fnPos(fn)
	w := &Walker{P: c.P}
	paths := w.FuncRegion(fn)
	c.paths += len(paths)
	if len(paths) != 1 || len(fn.Params) != 3 {
		c.fail(rule, "doRefilter/shape", pos, fmt.Sprintf("expected one straight-line path (set filter; return doSync(list)); found %d paths", len(paths)))
		return
	}
	pa := paths[0]
	listP, filtP := fn.Params[1].Name(), fn.Params[2].Name()
	stage := 0
	var callRes *Term
	bad := ""
	for _, e := range pa.Effects {
		switch {
		case e.Kind == "store" && e.Addr.K == "faddr" && e.Addr.S == "filter" && e.Addr.A[0].K == "param":
			if stage != 0 {
				bad = "filter stored after the sync"
			}
			if !(e.Val.K == "param" && e.Val.S == filtP) {
				bad = "c.filter is assigned " + e.Val.Key() + ", not the filter argument"
			}
			stage = 1
		case e.Kind == "call" && e.Fn == sync:
			if stage != 1 {
				bad = "doSync runs before the new filter is installed"
			}
			if len(e.Args) != 2 || !(e.Args[1].K == "param" && e.Args[1].S == listP) {
				bad = "doSync is not given the list argument"
			}
			callRes = e.Res
			stage = 2
		case e.IsPure() || e.Kind == "rundefers":
		default:
			bad = "unexpected effect: " + e.String()
		}
	}
	if bad == "" && stage != 2 {
		bad = "missing filter assignment or doSync call"
	}
	if bad == "" && !(pa.End.Kind == "return" && len(pa.End.Results) == 1 && sameTerm(pa.End.Results[0], callRes)) {
		bad = "does not return the events of that doSync"
	}
	c.check(bad == "", rule, "doRefilter/set-filter-then-sync-list", pos, "c.filter := f; return c.doSync(list)", "doRefilter: "+bad)
}

// ---------- helpers: createKey / createEntry / NewEvent shape ----------

func (m *cacheModel) checkHelpers() {
	c := m.c
	// NewEvent(et, res) returns event{et, res} (non-nil interface on all paths)
	if fn := c.mustFunc("", "NewEvent"); fn != nil {
		w := &Walker{P: c.P}
		paths := w.FuncRegion(fn)
		c.paths += len(paths)
		ok := len(paths) == 1 && len(fn.Params) == 2
		if ok {
			r := paths[0].End.Results
			ok = len(r) == 1 && r[0].K == "struct" && r[0].S == "event" && len(r[0].A) == 2 &&
				r[0].A[0].K == "param" && r[0].A[0].S == fn.Params[0].Name() && r[0].A[1].K == "param" && r[0].A[1].S == fn.Params[1].Name()
		}
		c.check(ok, "T-SHAPE(event-ctor)", "NewEvent/returns-event{type,resource}", c.P.fnPos(fn), "NewEvent(t,r) = event{t,r}", "NewEvent no longer returns event{type, resource} of its arguments")
	}
	// event.Type / event.Resource return the respective fields
	for _, mf := range [][2]string{{"event.Type", "eventType"}, {"event.Resource", "resource"}} {
		if fn := c.mustFunc("", mf[0]); fn != nil {
			w := &Walker{P: c.P}
			paths := w.FuncRegion(fn)
			c.paths += len(paths)
			ok := len(paths) == 1 && len(paths[0].End.Results) == 1 && paths[0].End.Results[0].IsField(mf[1]) && paths[0].End.Results[0].A[0].K == "param"
			c.check(ok, "T-SHAPE(event-ctor)", mf[0]+"/returns-field-"+mf[1], c.P.fnPos(fn), "accessor returns its field", mf[0]+" does not return field "+mf[1])
		}
	}
}

// ---------- run loop dispatch and API request plumbing ----------

func (m *cacheModel) checkRunLoop() {
	c := m.c
	fn := c.mustFunc("", "_cache.run")
	if fn == nil {
		return
	}
	rule := "T-TABLE(_cache.run)"
	pos := c.P.fnPos(fn)
	loops := findLoopsDeep(c.P, fn)
	if len(loops) != 1 {
		c.undecided(rule, "_cache.run/shape", pos, fmt.Sprintf("expected exactly one loop, found %d", len(loops)))
		return
	}
	w := &Walker{P: c.P}
	paths := w.LoopRegion(fn, loops[0])
	c.paths += len(paths)
	want := map[string]string{"syncch": "_cache.doSync", "updatech": "_cache.doUpdate", "refilterch": "_cache.doRefilter", "listch": "_cache.doList", "getch": "", "lc.ShutdownRequest": ""}
	reqFields := map[string][]string{"syncch": {"list"}, "updatech": {"evt"}, "refilterch": {"list", "filter"}, "listch": {}}
	seenArm := map[string]int{}
	for i, pa := range paths {
		sels := selectsOf(pa)
		if len(sels) != 1 || !sels[0].Blocking || sels[0].Arm < 0 {
			o := c.fail(rule, "_cache.run/one-blocking-select-per-iteration", pos, "an iteration of the cache loop does not consist of exactly one blocking select")
			o.PathDump = dumpPath(c.P, i, pa)
			continue
		}
		sel := sels[0]
		ch := sel.Sel[sel.Arm].Chan
		arm := ""
		if ch.K == "field" && ch.A[0].K == "param" {
			arm = ch.S
		} else if r, _, ok := isInvoke(ch, "ShutdownRequest"); ok && r.IsRecvField("lc") {
			arm = "lc.ShutdownRequest"
		}
		if _, known := want[arm]; !known {
			o := c.fail(rule, "_cache.run/arm["+ch.Key()+"]", pos, "unknown select arm in the cache loop: "+armLabel(sel))
			o.PathDump = dumpPath(c.P, i, pa)
			continue
		}
		seenArm[arm]++
		recv := selRecvTerm(sel)
		_ = recv
		var calls, sends []*Effect
		other := ""
		for _, e := range pa.Effects {
			switch e.Kind {
			case "select":
			case "call":
				if e.IsPure() {
					continue
				}
				calls = append(calls, e)
			case "invoke":
				if e.IsPure() {
					continue
				}
				if e.Method == "ShutdownInitiated" && arm == "lc.ShutdownRequest" {
					continue
				}
				other = e.String()
			case "send":
				sends = append(sends, e)
			case "rundefers", "defer":
			default:
				other = e.String()
			}
		}
		key := "_cache.run/arm[" + arm + "]"
		switch arm {
		case "lc.ShutdownRequest":
			c.check(other == "" && len(calls) == 0 && len(sends) == 0 && (pa.End.Kind == "return" || pa.End.Kind == "stop" && pa.End.Block != loops[0].Header), rule, key, pos, "shutdown: initiate and leave the loop", "shutdown arm has unexpected effects or stays in the loop: "+other)
		case "getch":
			// lookup c.items[request.key]; hit → send entry.object, miss → send nil
			okk := other == "" && len(calls) == 0 && len(sends) == 1
			detail := ""
			if okk {
				s := sends[0]
				isReq := func(t *Term) bool { return t.K == "selrecv" }
				okk = s.Addr.IsField("resultch") && isReq(s.Addr.A[0])
				var hit, hitKnown bool
				for _, l := range pa.Lits {
					if l.T.K == "lookupok" && l.T.A[0].K == "lookup" && isItemsField(l.T.A[0].A[0]) && l.T.A[0].A[1].IsField("key") && isReq(l.T.A[0].A[1].A[0]) {
						hit, hitKnown = l.Val, true
					}
				}
				if !hitKnown {
					okk, detail = false, "the reply does not depend on a lookup of c.items[request.key]"
				} else if hit {
					v := s.Val
					if !(v.IsField("object") && v.A[0].K == "lookup" && isItemsField(v.A[0].A[0])) {
						okk, detail = false, "on a hit the reply is "+v.Key()+", not the cached entry's object"
					}
				} else if !s.Val.IsNil() {
					okk, detail = false, "on a miss the reply is "+s.Val.Key()+", not nil"
				}
				key += fmt.Sprintf("[hit=%v]", hit)
			}
			o := c.add(map[bool]string{true: "ok", false: "violation"}[okk], rule, key, pos, "get arm: "+detail)
			if !okk {
				o.PathDump = dumpPath(c.P, i, pa)
			}
		default:
			wantFn := c.P.Func("", want[arm])
			okk := other == "" && len(calls) == 1 && len(sends) == 1 && wantFn != nil && calls[0].Fn == wantFn
			detail := ""
			if okk {
				call, s := calls[0], sends[0]
				// args are the request's fields, in order
				fields := reqFields[arm]
				if len(call.Args) != 1+len(fields) {
					okk, detail = false, "argument count"
				}
				for k, f := range fields {
					if okk && !(call.Args[1+k].IsField(f) && call.Args[1+k].A[0].K == "selrecv") {
						okk, detail = false, fmt.Sprintf("argument %d is %s, not request.%s", k, call.Args[1+k].Key(), f)
					}
				}
				// reply = that call's result on the request's reply channel
				if okk && !sameTerm(s.Val, call.Res) {
					okk, detail = false, "the reply is not the result of the handler call"
				}
				replyOK := s.Addr.K == "selrecv" || s.Addr.IsField("resultch") && s.Addr.A[0].K == "selrecv"
				if okk && !replyOK {
					okk, detail = false, "the reply is sent on "+s.Addr.Key()+", not the request's reply channel"
				}
				// the handler call precedes the reply (cache-before-event)
				if okk {
					ci, si := -1, -1
					for k, e := range pa.Effects {
						if e == call {
							ci = k
						}
						if e == s {
							si = k
						}
					}
					if ci > si {
						okk, detail = false, "reply sent before the handler ran"
					}
				}
			} else {
				detail = fmt.Sprintf("expected exactly one call of %s and one reply; found %d calls, %d sends, other=%q", want[arm], len(calls), len(sends), other)
			}
			o := c.add(map[bool]string{true: "ok", false: "violation"}[okk], rule, key, pos, "arm "+arm+" → "+want[arm]+"(request fields) → reply: "+detail)
			if !okk {
				o.PathDump = dumpPath(c.P, i, pa)
			}
		}
	}
	for arm := range want {
		if seenArm[arm] == 0 {
			c.fail(rule, "_cache.run/arm["+arm+"]", pos, "the cache loop no longer serves "+arm)
		}
	}
}

// checkDoList: single range over c.items without early exit, appending every
// entry.object to a fresh slice which is returned.
func (m *cacheModel) checkDoList() {
	c := m.c
	fn := c.mustFunc("", "_cache.doList")
	if fn == nil {
		return
	}
	rule := "T-SHAPE(doList)"
	pos := c.P.fnPos(fn)
	loops := findLoops(fn)
	if len(loops) != 1 {
		c.fail(rule, "doList/single-loop", pos, fmt.Sprintf("expected one loop over c.items, found %d", len(loops)))
		return
	}
	w := &Walker{P: c.P}
	paths := w.LoopRegion(fn, loops[0])
	c.paths += len(paths)
	okk := len(paths) == 2
	detail := ""
	for _, pa := range paths {
		var more, known bool
		for _, l := range pa.Lits {
			if l.T.K == "extract" && l.T.S == "0" && l.T.A[0].K == "next" && l.T.A[0].A[0].K == "range" && isItemsField(l.T.A[0].A[0].A[0]) {
				more, known = l.Val, true
			} else {
				okk, detail = false, "extra condition in the snapshot loop: "+l.String()
			}
		}
		if !known {
			okk, detail = false, "loop is not a range over c.items"
			continue
		}
		apps := 0
		for _, e := range pa.Effects {
			switch e.Kind {
			case "append":
				apps++
				x := e.Args[1]
				if !(len(e.Args) == 2 && x.IsField("object") && x.A[0].K == "extract" && x.A[0].S == "2") {
					okk, detail = false, "appends "+x.Key()+" instead of the entry's object"
				}
			default:
				if !e.IsPure() {
					okk, detail = false, "unexpected effect "+e.String()
				}
			}
		}
		if more && apps != 1 {
			okk, detail = false, fmt.Sprintf("%d appends per entry", apps)
		}
		if more && pa.End.Kind == "stop" && pa.End.Block != loops[0].Header {
			okk, detail = false, "early exit from the snapshot loop"
		}
	}
	// result slice is fresh: the base of the returned value's φ/append closure is a
	// slice made in this function (never a field or a parameter), and nothing is
	// stored into the receiver
	fresh := true
	var base func(v ssa.Value, d int) bool
	seenV := map[ssa.Value]bool{}
	base = func(v ssa.Value, d int) bool {
		if seenV[v] || d > 8 {
			return true
		}
		seenV[v] = true
		switch x := v.(type) {
		case *ssa.Phi:
			for _, e := range x.Edges {
				if !base(e, d+1) {
					return false
				}
			}
			return true
		case *ssa.Call:
			if bi, ok := x.Call.Value.(*ssa.Builtin); ok && bi.Name() == "append" {
				return base(x.Call.Args[0], d+1)
			}
			return false
		case *ssa.MakeSlice:
			return true
		case *ssa.Slice:
			_, isAlloc := x.X.(*ssa.Alloc)
			if isAlloc {
				return true
			}
			return base(x.X, d+1)
		case *ssa.Const:
			return x.Value == nil
		}
		return false
	}
	nret := 0
	for _, b := range fn.Blocks {
		for _, in := range b.Instrs {
			switch x := in.(type) {
			case *ssa.Return:
				nret++
				if len(x.Results) != 1 || !base(x.Results[0], 0) {
					fresh = false
					detail = "the returned slice is not freshly made in doList (it aliases storage that outlives the call: a later List overwrites a snapshot a caller still holds)"
				}
			case *ssa.Store:
				if fa, ok := x.Addr.(*ssa.FieldAddr); ok {
					if _, isParam := fa.X.(*ssa.Parameter); isParam {
						fresh = false
						detail = "doList stores into the cache struct"
					}
				}
			}
		}
	}
	if nret == 0 {
		fresh = false
	}
	c.check(okk && fresh, rule, "doList/fresh-slice-of-every-entry", pos, "one range over c.items, one append per entry, fresh slice", "doList: "+detail)
}

// checkKeySites: every construction of cacheKey puts the namespace first and
// the name second (Get: parameters ns,name in that order; others: obj's
// GetNamespace/GetName).
func (m *cacheModel) checkKeySites() {
	c := m.c
	rule := "T-FLOW(cache-key)"
	n := 0
	for _, f := range c.P.SrcFuncs("") {
		w := &Walker{P: c.P}
		var checked bool
		for _, b := range f.Blocks {
			for _, in := range b.Instrs {
				if a, ok := in.(*ssa.Alloc); ok {
					if typeNameOf(a.Type()) == "cacheKey" && !checked {
						checked = true
					}
				}
			}
		}
		if !checked {
			continue
		}
		c.useFn(f)
		paths := w.FuncRegion(f)
		c.paths += len(paths)
		// collect all struct:cacheKey terms appearing in effects / results
		found := map[string]*Term{}
		collect := func(t *Term) {
			walkTerm(t, func(x *Term) {
				if x.K == "struct" && x.S == "cacheKey" {
					found[x.Key()] = x
				}
			})
		}
		for _, pa := range paths {
			for _, e := range pa.Effects {
				for _, a := range e.Args {
					collect(a)
				}
				collect(e.Val)
				collect(e.Addr)
				if e.Sel != nil {
					for _, s := range e.Sel {
						collect(s.Send)
					}
				}
			}
			for _, r := range pa.End.Results {
				collect(r)
			}
			for _, l := range pa.Lits {
				collect(l.T)
			}
		}
		for _, k := range found {
			n++
			ok := false
			if _, isk := keyOf(k); isk {
				ok = true
			} else if len(k.A) == 2 && k.A[0].K == "param" && k.A[1].K == "param" && len(f.Params) >= 3 &&
				k.A[0].S == f.Params[1].Name() && k.A[1].S == f.Params[2].Name() {
				ok = true // Get(ns, name)
			}
			c.check(ok, rule, fnName(f)+"/key-is-(namespace,name)", c.P.fnPos(f), "key = (namespace, name)", "cache key built as "+k.Key()+": namespace/name components are not in (namespace, name) order from the same object")
		}
	}
	_ = n
	// GetObject(obj) = Get(obj.GetNamespace(), obj.GetName())
	if fn := c.mustFunc("", "_cache.GetObject"); fn != nil {
		ok := false
		for _, pa := range pathsOf(c, fn) {
			for _, e := range pa.Effects {
				if e.Kind == "call" && e.Fn != nil && fnName(e.Fn) == "_cache.Get" && len(e.Args) == 3 {
					a, b := e.Args[1], e.Args[2]
					ok = a.K == "invoke" && a.S == "GetNamespace" && b.K == "invoke" && b.S == "GetName" && sameTerm(a.A[0], b.A[0])
				}
				// or the request is built directly: the key sent on getch is (obj.GetNamespace(), obj.GetName())
				if e.Kind == "select" {
					for _, st := range e.Sel {
						if st.Send == nil || !st.Chan.IsRecvField("getch") {
							continue
						}
						walkTerm(st.Send, func(x *Term) {
							if x.K == "struct" && strings.HasSuffix(x.S, "cacheKey") && len(x.A) == 2 {
								a, b := x.A[0], x.A[1]
								if a.K == "invoke" && a.S == "GetNamespace" && b.K == "invoke" && b.S == "GetName" && sameTerm(a.A[0], b.A[0]) && a.A[0].K == "param" {
									ok = true
								}
							}
						})
					}
				}
			}
		}
		c.check(ok, rule, "_cache.GetObject/Get(namespace,name)", c.P.fnPos(fn), "", "GetObject does not look up (obj.GetNamespace(), obj.GetName()) in that order")
	}
}

// ---------- single owner (T-CONFINE) ----------

func (m *cacheModel) checkConfinement() {
	c := m.c
	rule := "T-CONFINE(_cache)"
	allowed := map[string]bool{"newCache": true, "_cache.run": true, "_cache.doList": true, "_cache.doSync": true, "_cache.doRefilter": true, "_cache.doUpdate": true}
	for _, fld := range []string{"items", "filter"} {
		accs := c.P.fieldAccesses("", "_cache", fld)
		byFn := map[string]int{}
		for _, a := range accs {
			c.sites++
			name := fnName(a.Fn)
			byFn[name]++
			// helpers reachable only from the allowed set are fine: resolve below
		}
		for name, n := range byFn {
			if allowed[name] {
				c.ok(rule, "_cache."+fld+"/accessed-in/"+name, "-", fmt.Sprintf("%d accesses", n))
				continue
			}
			// a helper: all its callers (transitively) must be in the allowed set, no value uses
			f := c.P.Func("", name)
			okk := f != nil && m.onlyCalledFrom(f, allowed, map[*ssa.Function]bool{})
			c.check(okk, rule, "_cache."+fld+"/accessed-in/"+name, c.P.fnPos(f), "helper called only from the cache goroutine",
				"field _cache."+fld+" is accessed in "+name+", which is not confined to the cache's run goroutine (the map/filter would be touched from another goroutine: data race, torn reads)")
		}
	}
	// the do* functions and run are called only from the allowed set; run is started exactly once by `go` in newCache
	for name := range allowed {
		if name == "newCache" {
			continue
		}
		f := c.P.Func("", name)
		if f == nil {
			continue
		}
		c.useFn(f)
		for _, cs := range c.P.callersOf(f) {
			c.sites++
			caller := fnName(cs.Fn)
			if name == "_cache.run" {
				c.check(caller == "newCache" && cs.Kind == "go", rule, "_cache.run/started-by/"+caller, c.P.instrPos(cs.In), "go c.run() in newCache", "_cache.run is invoked from "+caller+" ("+cs.Kind+"): a second cache goroutine or a synchronous call breaks single ownership")
				continue
			}
			okk := cs.Kind == "call" && (allowed[caller] && caller != "newCache" || m.onlyCalledFrom(cs.Fn, allowed, map[*ssa.Function]bool{}))
			c.check(okk, rule, name+"/called-from/"+caller, c.P.instrPos(cs.In), "called on the cache goroutine", name+" is used ("+cs.Kind+") in "+caller+", outside the cache's run goroutine")
		}
	}
	if f := c.P.Func("", "_cache.run"); f != nil {
		n := 0
		for _, cs := range c.P.callersOf(f) {
			if cs.Kind == "go" {
				n++
			}
		}
		c.check(n == 1, rule, "_cache.run/started-exactly-once", c.P.fnPos(f), "one go site", fmt.Sprintf("_cache.run is started %d times", n))
	}
	// the map value never escapes: c.items is only used as operand of
	// Lookup / MapUpdate / Range / len / delete
	for _, a := range c.P.fieldAccesses("", "_cache", "items") {
		fa, ok := a.In.(*ssa.FieldAddr)
		if !ok {
			continue
		}
		for _, r := range *fa.Referrers() {
			switch x := r.(type) {
			case *ssa.UnOp: // load: check uses of the loaded map
				for _, u := range *x.Referrers() {
					okk := false
					switch y := u.(type) {
					case *ssa.Lookup, *ssa.MapUpdate, *ssa.Range, *ssa.DebugRef:
						okk = true
					case *ssa.Call:
						if bi, ok := y.Call.Value.(*ssa.Builtin); ok && (bi.Name() == "len" || bi.Name() == "delete") {
							okk = true
						}
					}
					if !okk {
						c.fail(rule, "_cache.items/escapes-in/"+fnName(a.Fn), c.P.instrPos(u), "the cache map itself flows into "+fmt.Sprintf("%T", u)+" (returned, sent, stored or passed on): readers would share the live map")
					}
				}
			case *ssa.Store:
				// initialisation in newCache (composite literal) is fine; elsewhere flagged by the tables
				if fnName(a.Fn) != "newCache" && fnName(a.Fn) != "_cache.doSync" {
					c.fail(rule, "_cache.items/reassigned-in/"+fnName(a.Fn), c.P.instrPos(r), "c.items is reassigned outside the constructor")
				}
			}
		}
	}
	c.ok(rule, "_cache.items/never-escapes", "-", "map used only by lookup/update/range/len/delete")
}

// onlyCalledFrom: every use of f is a plain call from a function in allowed
// (or from another helper with the same property).
func (m *cacheModel) onlyCalledFrom(f *ssa.Function, allowed map[string]bool, seen map[*ssa.Function]bool) bool {
	if f == nil || seen[f] {
		return f != nil
	}
	seen[f] = true
	cs := m.c.P.callersOf(f)
	if len(cs) == 0 {
		return false
	}
	for _, s := range cs {
		if s.Kind != "call" {
			return false
		}
		n := fnName(s.Fn)
		if allowed[n] && n != "newCache" {
			continue
		}
		if !m.onlyCalledFrom(s.Fn, allowed, seen) {
			return false
		}
	}
	return true
}

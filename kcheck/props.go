package main

import "fmt"

var props []propSpec

func init() {
	props = []propSpec{
		{ID: "C01", Level: "other", Run: checkC01,
			Explanation: "Static decision-table extraction: every acyclic SSA path of doUpdate, of one doSync list-element step and of the doSync sweep is classified over the atoms {parseOK,isDelete,found,accNew,accCur,ord} and its effects on c.items / the event list are compared with the reference semantics of C01 for every abstract input (so for every object, version, filter and, by induction over steps, every history). Plus: doRefilter = set filter then doSync(list); run-loop dispatch; key construction; single-owner confinement of items/filter; no Accept on an absent entry; parse errors skipped.",
			Assumptions: []string{"user filters are pure and terminate", "strconv.Atoi defines 'numeric'", "lists with duplicate keys are judged as the left fold of the item step"}},
	}
}

func checkC01(c *Ctx) {
	checkControllerTable(c) // for the controller's cache: every list result is synced and every watch event applied (none skipped or pre-filtered)
	checkCombinators(c) // "the current filter accepts it": Accept of the library's own filters is the documented function of (filter, object)
	m := newCacheModel(c)
	m.checkDoUpdate()
	m.checkDoSync()
	m.checkDoRefilter()
	m.checkHelpers()
	m.checkRunLoop()
	m.checkDoList()
	m.checkKeySites()
	m.checkConfinement()
	checkNotRunningErrors(c) // every cache API call goes through the loop and returns the loop's reply (no fast path around the owner)
	checkRequestChannelPairing(c)
	// "duplicate keys, stale … versions": the version fold over a list is doSync's; the helpers between the
	// client and cache.sync hand over the server's list element for element (no de-duplication, re-ordering
	// or selection of their own, which would decide duplicates by position instead of by version)
	checkListHelpers(c)
	checkErrPropagation(c, "T-SHAPE(list-helpers)", "", "extractList", "meta.ExtractList")
	c.floor("T-TABLE(doUpdate)", 4, "doUpdate has 9 paths; the floor is about half the pattern count of the pinned tree so that a refactoring that merges paths does not trip it")
	c.floor("T-TABLE(doSync.item)", 4, "doSync item step has 9 in-loop paths; the floor is about half the pattern count of the pinned tree so that a refactoring that merges paths does not trip it")
	c.floor("T-TABLE(doSync.sweep)", 3, "sweep: exit, in set, not in set")
	c.floor("T-TABLE(_cache.run)", 6, "6 arms, get arm twice; the floor is about half the pattern count of the pinned tree so that a refactoring that merges paths does not trip it")
	c.floor("T-CONFINE(_cache)", 8, "2 fields x accessor functions + call sites")
}

func init() {
	props = append(props, propSpec{ID: "C06", Level: "other", Run: checkC06,
		Explanation: "Transition table of filterSubscription.run extracted from SSA (4 select arms; state P/pending/ready/D; inputs isNew/ok/error checks) compared with the reference table on every abstract input; constructor/accessor flows; cache step function as in C01.",
		Assumptions: []string{"drained-state equality is argued by induction over the per-step table; the interleaving-level statement itself is not decided"}})
}

func checkC06(c *Ctx) {
	checkPublisherFanout(c) // every filtered subscription and clone below a publisher gets every event (complete, sequential fan-out)
	newCacheModel(c).checkDoList() // the parent listing a (re)sync works from is a private snapshot
	checkFilterEquality(c) // an equal-looking filter is skipped: equality must be sound
	checkNotRunningErrors(c)
	checkRequestChannelPairing(c) // Refilter goes through the loop, in call order
	checkRootForwarders(c)
	checkFilterSubscriptionTable(c)
	checkFilterSubscriptionFlows(c)
	checkFilterPublisherFlows(c)
	checkFSubDistribute(c)
	m := newCacheModel(c)
	m.checkDoUpdate() // parent events pass through the version-aware update: replays are idempotent
	m.checkDoSync()
	m.checkDoRefilter()
	checkCombinators(c) // "its filter applied to its parent": the filter value cannot change under the subscription (constructors copy their arguments)
	c.floor("T-TABLE(filterSubscription.run)", 12, "23 iteration paths + initial state; the floor is about half the pattern count of the pinned tree so that a refactoring that merges paths does not trip it")
}

func init() {
	props = append(props, propSpec{ID: "C03", Level: "other", Run: checkC03,
		Explanation: "Transition table of controller.run (6 select arms; atoms: the six error checks and `initialized`) compared with the reference: every list result is synced into the cache, published (after the first) and followed by watcher.reset at that list's version; any failure initiates shutdown with the cause; the list arm is unconditionally enabled and the watcher's channel is re-read every iteration. Plus shapes of executeList/extractList/listResourceVersion (empty ListOptions), builder flows, and the cache step function of C01.",
		Assumptions: []string{"time to converge and server behaviour are not decided", "relist liveness is C13"}})
}

func checkC03(c *Ctx) {
	checkClientRequestFlows(c) // the list the controller converges to is the whole collection (one request with the caller's options, nothing truncated)
	checkRootForwarders(c) // subscribers hang off a publisher that has been running since Create (nothing is replayed late)
	checkSessionTable(c) // only object frames become events: a status or bookmark frame never reaches the cache
	checkControllerTable(c)
	checkReadyPlumbing(c) // includes: controller cache built with the builder's filter
	m := newCacheModel(c)
	m.checkDoSync()      // "never regressing an object to an older version" is the found/EQ|GT rows
	checkWatcherTable(c) // the watch restarts from a fresh buffer at every list (no stale frame of the old watch survives the relist)
	checkWatcherAPI(c)
	checkListerTable(c) // "after at most one further relist, even if the watch never delivers": the relist cycle has no dead end
	checkTickerTable(c)
	checkControllerDistribute(c)
	checkListHelpers(c)
	checkErrPropagation(c, "T-SHAPE(list-helpers)", "", "extractList", "meta.ExtractList")
	checkBuilderFlows(c)
	checkControllerAPI(c)
	c.floor("T-TABLE(controller.run)", 8, "14 iteration paths + initial state; the floor is about half the pattern count of the pinned tree so that a refactoring that merges paths does not trip it")
	c.floor("T-SHAPE(list-helpers)", 3, "executeList, listResourceVersion, extractList")
}

func init() {
	props = append(props, propSpec{ID: "C04", Level: "other", Run: checkC04,
		Explanation: "Transition tables of _watcher.run (6 arms; loop-carried session/outch/curVersion/retry/retrych read off the loop-header phis) and _watchSession.run (frame dispatch) compared with the reference: reconnect keeps the output channel, resumes at the version of the last event taken, is re-armed after every session end, only reset() replaces the channel (with a fresh buffer) and the controller re-reads events() every iteration; connect passes {ResourceVersion: session version, Watch: true}.",
		Assumptions: []string{"the server replays from the resume version", "latency bound is the constant watchRetryDelay; not judged"}})
}

func checkC04(c *Ctx) {
	checkWatcherTable(c)
	checkWatcherAPI(c)
	checkSessionTable(c)
	checkSessionFlows(c)
	checkClientRequestFlows(c) // the resume version reaches the server: each Watch call encodes its own options into a fresh request
	checkControllerTable(c)    // re-read of watcher.events() per iteration, update+distribute of every watch event
	// a session that fails to connect must still complete, or the watcher never schedules the retry
	var wruns []*runInfo
	for _, r := range findRunFuncs(c.P, []string{""}) {
		if n := fnName(r.fn); n == "_watchSession.run" || n == "_watcher.run" {
			wruns = append(wruns, r)
		}
	}
	checkLifecycleOnce(c, wruns)
	c.floor("T-TABLE(_watcher.run)", 6, "8 iteration paths, closure, initial state; the floor is about half the pattern count of the pinned tree so that a refactoring that merges paths does not trip it")
	c.floor("T-TABLE(_watchSession.run)", 5, "8 distinct cases + prelude; the floor is about half the pattern count of the pinned tree so that a refactoring that merges paths does not trip it")
}

func init() {
	props = append(props, propSpec{ID: "C13", Level: "other", Run: checkC13,
		Explanation: "Phase tables of _lister.run (tick → list → deliver → tick; exactly one of tickch/runch/resultch armed in every phase, read off the loop-header phis) and _ticker.run (timer armed or tick pending after every handler; reset re-arms with a fresh period, drains without blocking and disables a pending tick), the list worker/canceller goroutines, and the flow of the refresh period from the builder to the timer. Any blocking operation inside a ticker handler is reported.",
		Assumptions: []string{"numeric spacing ([0.9p,1.1p]) and wall-clock behaviour are not decided"}})
}

func checkC13(c *Ctx) {
	checkControllerTable(c) // the lister's result is consumed by the controller loop itself (the period restarts at consumption)
	checkWatcherTable(c) // the controller calls the watcher synchronously before every select: a watcher that can block wedges the relist cycle
	checkListHelpers(c) // a list call is bounded only by shutdown (no per-call deadline that turns a slow list into a fatal error)
	checkNoSleep(c)
	checkCtorChannelCapacities(c)
	checkRequestChannelPairing(c) // Reset() must reach the reset arm, Stop() the stop arm
	checkSessionFlows(c)          // a hung watch connect must not wedge the relist cycle (stop() cancels before it waits)
	checkListerTable(c)
	checkListGoroutines(c)
	checkTickerTable(c)
	checkPeriodFlow(c)
	c.floor("T-TABLE(_lister.run)", 4, "4 arms + initial phase; the floor is about half the pattern count of the pinned tree so that a refactoring that merges paths does not trip it")
	c.floor("T-TABLE(_ticker.run)", 4, "5 cases + initial state; the floor is about half the pattern count of the pinned tree so that a refactoring that merges paths does not trip it")
	c.floor("T-FLOW(period)", 6, "period stores and uses")
}

func init() {
	props = append(props, propSpec{ID: "C16", Level: "other", Run: checkC16,
		Explanation: "Decision tables of monitor.run (prelude: Done|Ready; loop: Done|Events with type dispatch) compared with the reference: OnInitialize exactly once, before the event loop, with the cache list taken at readiness; exactly one callback per event chosen by the event type with that event's resource; no callback on the shutdown/early-close paths; no goroutine spawned; Handler.On* invoked only in monitor.run; Done() is the monitor's own lifecycle (closed by the deferred ShutdownCompleted after the last callback); typed monitors forward each slot to the same-named typed callback once.",
		Assumptions: []string{"handler behaviour and overflow drops (C10) are outside the claim"}})
}

func checkC16(c *Ctx) {
	m16 := newCacheModel(c)
	m16.checkRunLoop() // List() is answered by doList at that moment
	m16.checkDoUpdate()
	m16.checkDoSync()
	newCacheModel(c).checkDoList() // the list handed to OnInitialize is a private snapshot
	checkSubscriptionTable(c) // callbacks in publication order: the subscription hand-off under the monitor forwards in order or drops, never reorders
	for _, r := range typedRelsQuick(c) {
		checkTypedRobustness(c, r)
		checkHandlerBuilderCopy(c, r)
	}
	checkHandlerBuilderCopy(c, "")
	if c.Tier == "thorough" {
		checkCallersVTA(c)
	}
	checkMonitorTable(c)
	checkHandlerCallers(c)
	checkMonitorAPI(c)
	rels := []string{"types/pod"}
	if c.Tier == "thorough" {
		rels = typedRels(c)
	}
	for _, r := range rels {
		checkTypedMonitor(c, r)
	}
	c.floor("T-TABLE(monitor.run)", 5, "3 prelude + 6 loop cases; the floor is about half the pattern count of the pinned tree so that a refactoring that merges paths does not trip it")
	c.floor("T-WHO(Handler)", 5, "4 callback sites")
	c.floor("T-SHAPE(typed-monitor)", 4, "4 slots")
}

// typedRels: module-relative paths of the generated typed packages.
func typedRels(c *Ctx) []string {
	var out []string
	for _, r := range c.P.repoRels() {
		if len(r) > 6 && r[:6] == "types/" && r != "types/gen" && c.P.fileOf(r, "generated.go") != nil {
			out = append(out, r)
		}
	}
	return out
}

func init() {
	props = append(props, propSpec{ID: "C05", Level: "other", Run: checkC05,
		Explanation: "Structure that order/exactly-once delivery needs, decided for all schedules: no goroutine is spawned anywhere on the event path; every event-path channel has a single sending function and the distributors are called only from their owner's run loop; _subscription.run forwards exactly the received event once; both distributors are a single complete range with one delivery per element/subscriber and no early exit; the publisher's map is confined to its run goroutine, registration happens inside the loop and returns the registered value; the cache replies only after its handler ran (cache-before-event) and the controller publishes exactly the events of that reply.",
		Assumptions: []string{"no overflow (premise of the property)", "Go channels are FIFO per channel", "scheduler fairness"}})
}

func checkC05(c *Ctx) {
	checkFilterSubscriptionTable(c) // a filtered subscription takes every parent event exactly once (none discarded, none replayed)
	checkCloneFresh(c)
	checkCtorChannelCapacities(c)
	checkRootForwarders(c)
	if c.Tier == "thorough" {
		checkCallersVTA(c)
	}
	checkSubscriptionTable(c)
	checkPublisherTable(c)
	checkPublisherFanout(c)
	checkControllerDistribute(c)
	checkFSubDistribute(c)
	checkEventPathSingleSender(c)
	m := newCacheModel(c)
	m.checkRunLoop() // reply after the handler ran
	m.checkDoSync()  // third sentence: a subscriber never reads an older version than it was told about
	m.checkDoUpdate()
	checkControllerTable(c)
	checkWatcherTable(c) // a reconnect resumes after the last event taken: already-published history is not published again
	for _, r := range typedRelsQuick(c) {
		checkTypedRobustness(c, r) // the typed layer forwards every event it can wrap, once, in order, and survives foreign objects
	}
	checkMonitorTable(c) // a monitor's handler is a subscriber too: callbacks in event order, on one goroutine
	c.floor("T-TABLE(_subscription.run)", 4, "2 arms, defer close, send")
	c.floor("T-TABLE(publisher.run)", 4, "event ok / closed (drained or not) / subscribe / unsubscribe")
	c.floor("T-CHAN(single-sender)", 4, "4 event-path channels")
	c.floor("T-NOSPAWN(event-path)", 8, "8 event-path functions")
	c.floor("T-SHAPE(distribute)", 3, "3 distributors")
}

func init() {
	props = append(props,
		propSpec{ID: "C12", Level: "other", Run: checkC12,
			Explanation: "Lifecycle typestate by data-flow (ShutdownCompleted deferred first; ShutdownInitiated exactly once on every path to return and never followed by another loop iteration) for every run function; a complete inventory of blocking operations (select, send, receive, lifecycle and client calls) of the root, join and client packages, each of which must fall in a justified class K1..K9; every join-wait justified by must-facts on all paths (Close/Stop on the target, its event channel seen closed, or ShutdownInitiated plus the target being built with this actor's stop channel); reply channels buffered; goroutine inventory; external calls governed by contexts cancelled at shutdown; session.stop cancels the in-flight connect.",
			Assumptions: []string{"client List/Watch return once their context is cancelled (the property's proviso)", "bounds in seconds are not decided", "third-party panics are not considered"}},
		propSpec{ID: "C11", Level: "other", Run: checkC11,
			Explanation: "Stop-channel wiring (every child constructor receives the ShuttingDown() of the lifecycle its parent is shut down through and watches it), event-channel consumers exit when their parent's channel closes (table rows), Events() channels are closed exactly once by their only sender on exit, Shutdown/ShutdownAsync are requested only on the receiver's own lifecycle and every other Close forwards to the one subscription that feeds the object, which is exclusively owned (flows into exactly one wrapper).",
			Assumptions: []string{"'eventually' relies on C12's liveness clauses and the scheduler"}},
		propSpec{ID: "C10", Level: "other", Run: checkC10,
			Explanation: "No stage of the event path can be blocked by a consumer: every send on a consumer-facing buffer (_subscription.outch, filterSubscription.outch, typed outch, watcher outch, session outch) is a select with default on a channel made with capacity EventBufsiz; the actors receiving the unbuffered hand-offs have no blocking operation other than their loop select (inventory); user callbacks run only on the monitor's goroutine; what a consumer receives is an in-order subsequence by C05's structure.",
			Assumptions: []string{"which events are dropped under overflow is not decided"}})
}

var rootRels = []string{"", "join", "client"}

func checkC12(c *Ctx) {
	checkPeriodFlow(c) // newTicker always returns a running ticker whose Done() closes after Stop()
	checkTickerTable(c)
	checkCtorCompletes(c)
	checkPublisherFanout(c) // the drain counts one unsubscribe per registered subscription: nothing but the unsubscribe arm may remove one
	checkNoSleep(c)
	checkCtorChannelCapacities(c)
	checkRootForwarders(c)
	runs := findRunFuncs(c.P, rootRels)
	c.check(len(runs) >= 9, "T-ONCE(ShutdownInitiated)", "run-functions", "-", fmt.Sprintf("%d run functions", len(runs)), fmt.Sprintf("found %d functions deferring ShutdownCompleted, hand-confirmed 9", len(runs)))
	checkLifecycleOnce(c, runs)
	rels := append(append([]string{}, rootRels...), typedRelsQuick(c)...)
	sites := checkBlockingInventory(c, rels, runs, 60)
	checkReplyChannels(c, rels)
	kids := checkStopWiring(c)
	checkJoinWaits(c, sites, runs, kids)
	checkWaitForGraph(c, runs)
	checkNotRunningErrors(c)
	checkRequestChannelPairing(c)
	checkGoroutineInventory(c, rels, runs)
	checkRunStartedOnce(c, runs)
	checkBuilderFlows(c) // context cancellation can only stop what was built with the configured context
	checkExternalCallContexts(c)
	checkSessionFlows(c)
	checkListGoroutines(c)
	checkTickerTable(c)
	// the exit rows of every actor's table: what each loop does on its way out (close its event
	// channel, close/await what feeds it) is what lets everything below it terminate
	checkFilterSubscriptionTable(c)
	checkPublisherTable(c)
	checkSubscriptionTable(c)
	checkMonitorTable(c)
	checkControllerTable(c)
	checkWatcherTable(c)
	checkSessionTable(c)
	checkListerTable(c)
	m := newCacheModel(c)
	m.checkRunLoop()
}

func checkC11(c *Ctx) {
	for _, r := range typedRelsQuick(c) {
		checkTypedRobustness(c, r) // a typed clone is a child of the typed controller it was cloned from (plain forwards to the parent)
	}
	checkCtorCompletes(c)
	checkCloneFresh(c) // closing one clone never closes a sibling: every Clone* call builds its own controller
	checkRootForwarders(c)
	checkStopWiring(c)
	checkCloseForwarding(c, append([]string{"", "join"}, typedRelsQuick(c)...))
	checkCloseOwners(c)
	checkBuilderFlows(c)
	checkSubscriptionLinearity(c)
	checkOutchClosed(c)
	checkJoinNoCloseOfParams(c) // closing or failing to build a join never closes what it was handed
	checkJoinRelease(c)
	checkSubscriptionTable(c)
	checkFilterSubscriptionTable(c)
	checkPublisherTable(c)
	checkMonitorTable(c)
	checkControllerTable(c)
	// the cascade reaches typed descendants: a typed subscription's loop may block on nothing but its
	// parent's event stream (and its own consumer-facing hand-over), so it ends when the parent's ends —
	// a wait on anything else (the parent's Ready(), a timer, a lock) outlives a parent that shut down first
	checkBlockingInventory(c, typedRelsQuick(c), findRunFuncs(c.P, rootRels), 2*len(typedRelsQuick(c)))
}

func typedRelsQuick(c *Ctx) []string {
	if c.Tier == "thorough" {
		return typedRels(c)
	}
	return []string{"types/pod"}
}

func checkC10(c *Ctx) {
	checkMonitorTable(c) // a lagging handler still gets one callback per event it receives, in order (nothing folded or re-ordered)
	for _, r := range typedRelsQuick(c) {
		checkTypedMonitor(c, r)
	}
	checkGeneratedJoinShape(c) // a join re-derives its selection from the source cache on every callback, so events its (lossy) monitor dropped heal at the next one
	checkCtorChannelCapacities(c)
	if c.Tier == "thorough" {
		checkCallersVTA(c)
	}
	checkConsumerBuffers(c)
	runs := findRunFuncs(c.P, []string{""})
	checkBlockingInventory(c, []string{""}, runs, 55)
	checkSubscriptionTable(c)
	checkFilterSubscriptionTable(c) // "the caches stay current": every ok∧ready parent event is applied, whatever the state of the consumer's buffer
	checkFSubDistribute(c)
	checkPublisherFanout(c) // a consumer whose buffer is full must not cut off the subscribers after it in the fan-out
	checkHandlerCallers(c)
	checkEventPathSingleSender(c)
}

func init() {
	props = append(props,
		propSpec{ID: "C18", Level: "other", Run: checkC18,
			Explanation: "Shape rules over the SSA paths of every Accept and constructor in package filter: Null/All constants, Not = negation of the child on the same object, And/Or = fold over the children with the right early exit and empty-list default, NSName routing (both fields set → fullset, else partials) and its per-entry wildcard table, selector filters = exactly selector.Matches(labels.Set(obj.GetLabels())), Labels/LabelSelector/Selector constructor chains, nsname helpers; every Accept is free of stores, channel operations and goroutines.",
			Assumptions: []string{"Kubernetes label-selector semantics are delegated to k8s.io/apimachinery (trusted)", "NSName entries with both fields empty are outside the contract"}},
		propSpec{ID: "C17", Level: "other", Run: checkC17,
			Explanation: "For every type implementing ComparableFilter (enumerated from the type-checked program by method set): Equals returns true only after asserting `other` to the receiver's own type (or DeepEqual of the whole receiver), every part of the receiver that Accept reads is compared with a trusted deep comparator / the child's Equals / == on scalars pairing the same field of both sides, Accept is pure; FiltersEqual's nil/comparable table; compareFilterList checks the lengths and every index with no overwritten accumulator; workload filters sort a copy of their sources before building (C19 rule).",
			Assumptions: []string{"reflect.DeepEqual on labels.Selector internals is trusted", "completeness of equality is not required"}})
}

func checkC18(c *Ctx) {
	checkCombinators(c)
	c.floor("T-SHAPE(Accept)", 8, "null, all, not, and, or, nsName x3, selector")
	c.floor("T-SHAPE(ctor)", 9, "Null, All, Not, And, Or, NSName, Selector, Labels, LabelSelector, nsname x2")
	c.floor("T-PURE(Accept)", 7, "7 Accept methods")
}

func checkC17(c *Ctx) {
	checkCombinators(c) // "built twice from the same arguments compares equal": the constructors are deterministic functions of their arguments
	checkFilterEquality(c)
	checkPodsFilters(c, true) // order-independence: sorted copy of the sources before building
	c.floor("T-COVERS(Equals)", 11, "10 comparable filter types + enumeration")
	c.floor("T-TABLE(FiltersEqual)", 3, "nil/nil, one nil, comparable, not comparable")
	c.floor("T-TABLE(compareFilterList)", 5, "length check + 5 cases")
}

func init() {
	props = append(props, propSpec{ID: "C19", Level: "other", Run: checkC19,
		Explanation: "Sibling-shape comparison of the seven PodsFilter functions against one reference shape (sorted copy of the sources with the (namespace,name) comparator; per source exactly one element And(NSName(<that source's namespace>,\"\"), selector-or-template-fallback); result Or over all elements), the ingress services filter (default backend and every rule path of every ingress contribute (ingress namespace, service name), ingresses contribute independently, no early exit), and the node / involved-object / selector-match filters (comma-ok kind guard, exact field pairing).",
		Assumptions: []string{"Kubernetes' own labels.Selector.Matches is trusted; the combinators the workload filters are built from (And, Or, NSName, Labels, LabelSelector) are checked with C18's rules as part of this property too"}})
}

func checkC19(c *Ctx) {
	checkGeneratedJoinShape(c) // the joins apply the selection filter of the source package itself (not a cached or wrapped one)
	checkAppendBases(c, []string{"types/deployment", "types/daemonset", "types/replicaset", "types/replicationcontroller", "types/statefulset", "types/job", "types/service", "types/ingress"})
	checkPodsFilters(c, false)
	checkIngressFilter(c)
	checkKindFilters(c)
	checkCombinators(c) // every workload filter is And(NSName(ns,""), Labels/LabelSelector(...)) under Or: their Accept decides the selection
	c.floor("T-SHAPE(PodsFilter)", 35, "7 siblings x 5 obligations")
	c.floor("T-SHAPE(ServicesFilter)", 5, "default backend, paths table, rules, ServicesFilter")
	c.floor("T-SHAPE(kind-filter)", 5, "node x2, involved x2, selector-match")
}

func init() {
	props = append(props, propSpec{ID: "C09", Level: "other", Run: checkC09,
		Explanation: "Construction shape of the eight generated joins (result = destination's CloneForFilter; all four handler slots set; OnInitialize refilters with filterFn of its argument, the other three re-list the source cache at callback time and refilter with filterFn of that list; monitor on the source; no Refilter on the construction path), resource release in package join (every closable obtained is, on each exit path, returned, closed, or closed by a goroutine waiting on the returned value's Done()), nothing handed in by the caller is ever closed, wrappers pass the selection filter of the source's package. Selection semantics rest on C06/C07/C16/C19; equality with the template is C20.",
		Assumptions: []string{"the quiescent-state equality itself is not decided"}})
}

func checkC09(c *Ctx) {
	checkCombinators(c)
	checkCtorChannelCapacities(c) // refilter requests are handed over one by one (rendezvous), never coalesced or dropped
	checkNotRunningErrors(c)
	checkRequestChannelPairing(c)
	checkGeneratedJoinShape(c)
	checkJoinRelease(c)
	checkJoinNoCloseOfParams(c)
	checkFilterSubscriptionTable(c)
	checkMonitorTable(c)
	m := newCacheModel(c)
	m.checkDoUpdate() // the join result's cache is a filtered-subscription cache: its step function is C01's
	m.checkDoSync()
	checkFilterEquality(c)     // a join update reaches the cache only if the rebuilt filter is not (wrongly) found equal
	checkPodsFilters(c, false) // the selection rule of each join is its source package's filter
	checkIngressFilter(c)
	c.floor("T-FLOW(join)", 60, "8 joins x 8 obligations + 8 wrappers")
}

func init() {
	props = append(props, propSpec{ID: "C20", Level: "translation_validation", Run: checkC20,
		Explanation: "Translation validation of the generators' output: every types/*/generated.go is unified token by token, declaration by declaration, with types/gen/template.go under one consistent binding of ObjectType (whose kind must be the package's), and every join/generated_*.go with the text/template literal of join/gen/main.go instantiated from the generated function's own signature. Plus (level other) template robustness on the instances (comma-ok assertions, foreign objects skipped in adaptList and the typed event loop, non-blocking forwarding, 1:1 forwarding methods) and typed clients checked against client-go's own typed client for the kind (API group accessor and Resource(\"…\") literal), with ns/res/ctx reaching the REST request in both list and watch.",
		Assumptions: []string{"typed-vs-untyped differential behaviour is argued from instance==template plus the robustness rules, not executed", "HTTP paths produced by rest.Request are third-party"}})
}

func checkC20(c *Ctx) {
	tvPrograms, tvNodes = 0, 0
	checkTypedInstances(c)
	checkJoinInstances(c)
	rels := typedRelsQuick(c)
	for _, r := range rels {
		checkTypedRobustness(c, r)
		checkTypedMonitor(c, r)
	}
	checkTypedClients(c, typedRels(c))
	if mk := c.P.Func("client", "makeResourceListFn"); mk != nil {
		if cl := returnedClosure(mk); cl != nil {
			checkErrPropagationFn(c, "T-SIBLING(NewClient)", "client", "makeResourceListFn$1", cl, "rest.Request.Do")
		} else {
			c.undecided("T-SIBLING(NewClient)", "client:makeResourceListFn/returned-closure", c.P.fnPos(mk), "makeResourceListFn does not build and return exactly one closure")
		}
	}
	// The adapters' comma-ok assertions drop anything that is not the package's kind: a typed
	// view equals the untyped one only if the core hands over the very objects it was given
	// (event and list columns of the cache tables: the emitted object is the row's object,
	// never a re-typed or wrapped stand-in).
	m := newCacheModel(c)
	m.checkDoUpdate()
	m.checkDoSync()
	m.checkDoRefilter()
	m.checkHelpers()
	m.checkDoList()
	c.floor("T-INSTANCE(typed)", 13, "12 typed packages")
	c.floor("T-INSTANCE(join)", 9, "8 generated joins")
	c.floor("T-SIBLING(NewClient)", 15, "12 clients + ForResource + 2 closures")
	c.floor("T-SHAPE(typed)", 20, "robustness rules on one instance")
}

func init() {
	props = append(props,
		propSpec{ID: "C02", Level: "other", Run: checkC02,
			Explanation: "Event columns of the cache decision tables (doUpdate, doSync item step and sweep): Create only on rows with the key absent, Update only with the key present and a strictly newer version, Delete only with the key present, and no event at all on rows that change nothing; the emitted object and type are the row's; every mutator returns exactly the events it built. Plus publish-what-was-returned: the controller and the filtered subscription distribute exactly the []Event result of the cache call of the same iteration, through a complete single forward range with one delivery per element, and nothing else can send on those channels.",
			Assumptions: []string{"event order inside one batch is free (sets are compared); sequential replay well-formedness follows from the per-key rows"}},
		propSpec{ID: "C07", Level: "other", Run: checkC07,
			Explanation: "Refilter rows of the filterSubscription transition table (equal filter on a ready subscription: no cache call and no event; changed filter: list the parent, cache.refilter(list, f), remember f, distribute exactly the refilter's events) combined with the doSync table restricted to equal versions (kept / one delete / one create) and doRefilter = install filter then sync; soundness of the equal-filter short-circuit is C17's rules (re-evaluated here).",
			Assumptions: []string{"'no parent events in flight' is the property's premise"}},
		propSpec{ID: "C08", Level: "other", Run: checkC08,
			Explanation: "Readiness: the controller closes its ready channel only on the first successful sync (table rows: no error row closes, initial events are not distributed, reset follows); filtered subscriptions close theirs only on the rows of the transition table that have synced the private cache (deferred ones start from the reject-all filter, which is what makes the unsynced-equal row sound); every Ready() accessor hands out that very channel (value-flow); the only close(readych) sites are the two run loops; distribution happens only on rows with ready=T; the watcher cannot hand out events before the first reset (initial state); joins refilter only from monitor callbacks.",
			Assumptions: []string{"drained-state statements are compositions of the per-step rows"}},
		propSpec{ID: "C14", Level: "other", Run: checkC14,
			Explanation: "Error rows of the controller table (each of the list failure kinds initiates shutdown with a cause derived from the failing call's error; a deliberate Close passes nil), shapes of executeList / extractList / listResourceVersion (client error, non-list object, non-object element), Error() returns the lifecycle's error; watch failures stay inside the session: the watcher initiates its own shutdown only on a shutdown request and re-arms a retry on every session end, the session uses its connection only after the connect error check.",
			Assumptions: []string{"timing only is left undecided"}},
		propSpec{ID: "C15", Level: "other", Run: checkC15,
			Explanation: "A static race-freedom and atomicity argument for all schedules: the cache's items/filter fields are accessed only by functions confined to the single run goroutine (started once), requests and replies travel over channels; each handler (doSync/doRefilter/doUpdate/doList) runs to completion inside one select arm with no channel operation, goroutine or foreign call; the run loop replies with the handler's own result computed before the reply; List returns a fresh slice filled from every entry; the map itself never escapes.",
			Assumptions: []string{"mutation of the shared objects by callers is outside C15", "Go memory model: channel send happens-before the matching receive"}})
}

func checkC02(c *Ctx) {
	checkMonitorTable(c) // "a mirroring consumer never diverges": a monitor hands every event it receives to its handler, one callback per event
	checkAppendBases(c, []string{""}) // the event lists start empty
	m := newCacheModel(c)
	m.checkDoUpdate()
	m.checkDoSync()
	m.checkDoRefilter()
	m.checkHelpers()
	m.checkRunLoop()
	checkControllerTable(c)
	checkControllerDistribute(c)
	checkFilterSubscriptionTable(c)
	checkFSubDistribute(c)
	checkEventPathSingleSender(c)
	c.floor("T-TABLE(doUpdate)", 4, "doUpdate paths; the floor is about half the pattern count of the pinned tree so that a refactoring that merges paths does not trip it")
	c.floor("T-TABLE(doSync.item)", 4, "doSync item paths; the floor is about half the pattern count of the pinned tree so that a refactoring that merges paths does not trip it")
	c.floor("T-SHAPE(distribute)", 2, "controller + filterSubscription distributors")
}

func checkC07(c *Ctx) {
	for _, r := range typedRelsQuick(c) {
		checkTypedRobustness(c, r) // the typed layer forwards every membership event of a Refilter (nothing de-duplicated away)
	}
	newCacheModel(c).checkDoList() // the parent listing a refilter works from is a private snapshot
	checkNotRunningErrors(c)
	checkRequestChannelPairing(c)
	checkFilterSubscriptionTable(c)
	checkFilterSubscriptionFlows(c)
	checkFSubDistribute(c)
	m := newCacheModel(c)
	m.checkDoSync()
	m.checkDoRefilter()
	checkFilterEquality(c)
	checkCombinators(c) // a filter held by a subscription is an immutable value: constructors copy, Accept is the documented function of it
	c.floor("T-TABLE(filterSubscription.run)", 12, "iteration paths; the floor is about half the pattern count of the pinned tree so that a refactoring that merges paths does not trip it")
	c.floor("T-COVERS(Equals)", 11, "comparable filters")
}

func checkC08(c *Ctx) {
	for _, r := range typedRelsQuick(c) {
		checkTypedRobustness(c, r) // a typed cache read is a read of the underlying cache at that moment (nothing memoised before Ready)
	}
	checkClientRequestFlows(c) // the first list the controller syncs is the whole collection the server returned for the caller's own options
	checkNotRunningErrors(c)
	checkRequestChannelPairing(c)
	checkFilterEquality(c)
	checkCtorChannelCapacities(c)
	checkControllerTable(c)
	checkFilterSubscriptionTable(c)
	checkFilterSubscriptionFlows(c)
	checkReadyPlumbing(c)
	checkWatcherTable(c)
	checkGeneratedJoinShape(c)
	checkMonitorTable(c)
	checkListHelpers(c) // a failed first list must arrive at the controller as a failure, or it would sync an empty list and signal readiness
	checkErrPropagation(c, "T-SHAPE(list-helpers)", "", "extractList", "meta.ExtractList")
	c.floor("T-FLOW(ready)", 9, "ready accessors and forwarders")
	c.floor("T-WHO(close-readych)", 3, "2 closing functions + site count")
}

func checkC14(c *Ctx) {
	checkNotRunningErrors(c) // a request to the watcher fails only when the watcher is shutting down (no timeout that would turn a slow watch into a fatal error)
	checkRequestChannelPairing(c)
	checkAppendBases(c, []string{""}) // extractList starts empty
	checkFilterSubscriptionTable(c) // "the whole subtree shuts down": every consumer leaves its loop when its parent's events close
	checkPublisherTable(c)
	checkPublisherFanout(c) // the publisher's drain ends only if every subscription reports its end exactly once, however it ended
	checkSubscriptionTable(c)
	checkMonitorTable(c)
	checkListerTable(c)
	checkStopWiring(c)
	checkControllerTable(c)
	checkListHelpers(c)
	checkErrPropagation(c, "T-SHAPE(list-helpers)", "", "extractList", "meta.ExtractList")
	checkControllerAPI(c)
	checkWatcherTable(c)
	checkSessionTable(c)
	checkSessionDeferOrder(c)
	checkSessionFlows(c)
	runs := findRunFuncs(c.P, []string{""})
	checkLifecycleOnce(c, runs)
	c.floor("T-TABLE(controller.run)", 8, "controller paths; the floor is about half the pattern count of the pinned tree so that a refactoring that merges paths does not trip it")
	c.floor("T-SHAPE(list-helpers)", 3, "three helpers")
}

func checkC15(c *Ctx) {
	checkRootForwarders(c) // Cache() of a clone IS the parent's cache (no memo in between)
	checkPublisherTable(c)
	checkControllerTable(c) // a relist reaches the cache as ONE sync request (readers never see a half-applied list)
	checkAppendBases(c, []string{""}) // the snapshot starts empty
	checkAcceptPurity(c)            // filters are shared by the cache goroutines of all subscriptions: Accept must not write
	checkFilterSubscriptionTable(c) // a refilter is ONE cache operation (never a half-applied refilter)
	if c.Tier == "thorough" {
		checkCallersVTA(c)
	}
	m := newCacheModel(c)
	m.checkConfinement()
	checkAtomicHandlers(c)
	m.checkDoList()
	m.checkRunLoop()
	m.checkKeySites()
	m.checkDoUpdate() // reads never go backwards: a version that is not newer never replaces the cached one
	m.checkDoSync()
	checkNotRunningErrors(c)
	checkRequestChannelPairing(c)
	c.floor("T-CONFINE(_cache)", 8, "field accessors and call sites")
	c.floor("T-BLOCK(cache-handlers)", 6, "6 handler/helper functions")
}

#!/usr/bin/env python3
"""Writes /verif/RULES.md: per property, the rules evaluated by its check with measured instance counts (from evidence/*.json)."""
import json, glob
out = ["# Rules evaluated per property (generated from evidence/*.json by tools/gen_rules_md.py)", "",
       "`instances` = obligations the rule produced on /repo's current tree; `floor` = hand-confirmed minimum below which the check fails as undecided.", ""]
for f in sorted(glob.glob('/verif/evidence/C*.json')):
    e = json.load(open(f))
    c = e['coverage']
    out.append(f"## {e['property_id']} — level {e['level']}, {c['obligations']} obligations, {c['paths_walked']} paths, {len(c['functions_analysed'])} functions, {c.get('known_findings',0)} known finding(s)")
    out.append("")
    out.append("| rule | instances | floor |")
    out.append("|---|---|---|")
    for r in c['rules']:
        out.append(f"| `{r['rule']}` | {r['instances']} | {r['floor'] or ''} |")
    out.append("")
open('/verif/RULES.md', 'w').write("\n".join(out))
print("ok")

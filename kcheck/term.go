package main

// Canonical terms: the walker (walk.go) evaluates every SSA value on a path
// to a Term.  go/ssa performs no CSE, so structurally equal expressions are
// distinct SSA values; Terms give them one canonical key.  Results of impure
// operations (calls, receives, map lookups, allocations) carry the identity
// of their instruction in the key, so two successive `List()` calls are never
// conflated.

import (
	"fmt"
	"go/constant"
	"go/token"
	"go/types"
	"strings"

	"golang.org/x/tools/go/ssa"
)

type Term struct {
	K   string // kind
	S   string // symbol (field name, callee name, literal, operator …)
	A   []*Term
	V   ssa.Value     // originating value, when there is one
	Fn  *ssa.Function // static callee / closure body / function value
	In  ssa.Instruction
	ID  string // identity suffix for impure results
	key string
}

func (t *Term) Key() string {
	if t == nil {
		return "<nil>"
	}
	if t.key != "" {
		return t.key
	}
	var b strings.Builder
	switch t.K {
	case "const":
		b.WriteString(t.S)
	case "param", "freevar", "global", "builtin":
		b.WriteString(t.K + ":" + t.S)
	case "func":
		b.WriteString("func:" + t.S)
	case "phi":
		b.WriteString("phi:" + t.S)
	case "field":
		b.WriteString(t.A[0].Key() + "." + t.S)
	case "faddr":
		b.WriteString("&" + t.A[0].Key() + "." + t.S)
	case "not":
		b.WriteString("!" + t.A[0].Key())
	case "binop":
		b.WriteString("(" + t.A[0].Key() + " " + t.S + " " + t.A[1].Key() + ")")
	default:
		b.WriteString(t.K)
		if t.S != "" {
			b.WriteString(":" + t.S)
		}
		if len(t.A) > 0 {
			b.WriteString("(")
			for i, a := range t.A {
				if i > 0 {
					b.WriteString(", ")
				}
				b.WriteString(a.Key())
			}
			b.WriteString(")")
		}
	}
	if t.ID != "" {
		b.WriteString("@" + t.ID)
	}
	t.key = b.String()
	return t.key
}

func (t *Term) String() string { return t.Key() }

func mk(k, s string, a ...*Term) *Term { return &Term{K: k, S: s, A: a} }

var (
	tTrue  = &Term{K: "const", S: "true"}
	tFalse = &Term{K: "const", S: "false"}
	tNil   = &Term{K: "const", S: "nil"}
)

func constTerm(c *ssa.Const) *Term {
	if c.Value == nil {
		// zero value: nil for reference types, zero struct otherwise
		switch u := c.Type().Underlying().(type) {
		case *types.Struct, *types.Array:
			_ = u
			return &Term{K: "const", S: "zero:" + types.TypeString(c.Type(), shortQual), V: c}
		case *types.Basic:
			if u.Kind() == types.UntypedNil {
				return tNil
			}
			return &Term{K: "const", S: "zero:" + u.String(), V: c}
		}
		return tNil
	}
	switch c.Value.Kind() {
	case constant.String:
		return &Term{K: "const", S: fmt.Sprintf("%q", constant.StringVal(c.Value)), V: c}
	case constant.Bool:
		if constant.BoolVal(c.Value) {
			return tTrue
		}
		return tFalse
	}
	return &Term{K: "const", S: c.Value.ExactString(), V: c}
}

func shortQual(p *types.Package) string {
	if p == nil {
		return ""
	}
	path := p.Path()
	if path == modPath {
		return ""
	}
	if strings.HasPrefix(path, modPath+"/") {
		return strings.TrimPrefix(path, modPath+"/")
	}
	return p.Name()
}

func typeStr(t types.Type) string { return types.TypeString(t, shortQual) }

// ---- predicates over terms ----

func (t *Term) IsConst() bool { return t != nil && t.K == "const" }
func (t *Term) IsNil() bool   { return t != nil && t.K == "const" && t.S == "nil" }

// IsField reports whether t is the value of field `name` (of any base).
func (t *Term) IsField(name string) bool { return t != nil && t.K == "field" && t.S == name }

// FieldOfParam: t == <param>.<name>
func (t *Term) IsRecvField(name string) bool {
	return t.IsField(name) && (t.A[0].K == "param" || t.A[0].K == "freevar")
}

// FieldPath returns e.g. "c.lc" for field chains rooted at a param/freevar.
func (t *Term) FieldPath() (string, bool) {
	if t == nil {
		return "", false
	}
	switch t.K {
	case "param", "freevar":
		return t.S, true
	case "field":
		p, ok := t.A[0].FieldPath()
		if !ok {
			return "", false
		}
		return p + "." + t.S, true
	}
	return "", false
}

// nonNil: the term certainly denotes a non-nil value.
func (t *Term) nonNil() bool {
	if t == nil {
		return false
	}
	switch t.K {
	case "makechan", "makemap", "makeslice", "new", "closure", "struct", "func", "mkiface", "alloc", "faddr", "iaddr":
		return true
	case "const":
		return t.S != "nil" && !strings.HasPrefix(t.S, "zero:")
	case "call":
		return t.S == "NewEvent" // same-package constructor: every return is a MakeInterface of a struct (checked by rule C01/event-ctor)
	}
	return false
}

func isIntLike(t types.Type) bool {
	b, ok := t.Underlying().(*types.Basic)
	return ok && b.Info()&(types.IsInteger|types.IsString|types.IsFloat) != 0
}

// relation masks for order atoms
const (
	relLT = 1
	relEQ = 2
	relGT = 4
)

func relMask(op token.Token) int {
	switch op {
	case token.LSS:
		return relLT
	case token.LEQ:
		return relLT | relEQ
	case token.GTR:
		return relGT
	case token.GEQ:
		return relGT | relEQ
	case token.EQL:
		return relEQ
	case token.NEQ:
		return relLT | relGT
	}
	return 0
}

func mirrorMask(m int) int {
	r := m & relEQ
	if m&relLT != 0 {
		r |= relGT
	}
	if m&relGT != 0 {
		r |= relLT
	}
	return r
}

func maskStr(m int) string {
	var s []string
	if m&relLT != 0 {
		s = append(s, "LT")
	}
	if m&relEQ != 0 {
		s = append(s, "EQ")
	}
	if m&relGT != 0 {
		s = append(s, "GT")
	}
	return strings.Join(s, "|")
}

// flattenAppend returns base and appended elements of nested append terms.
func flattenAppend(t *Term) (base *Term, elems []*Term) {
	if t != nil && t.K == "append" {
		b, e := flattenAppend(t.A[0])
		return b, append(e, t.A[1:]...)
	}
	return t, nil
}

// walkTerm visits t and all sub-terms.
func walkTerm(t *Term, f func(*Term)) {
	if t == nil {
		return
	}
	f(t)
	for _, a := range t.A {
		walkTerm(a, f)
	}
}

func termContains(t *Term, pred func(*Term) bool) bool {
	found := false
	walkTerm(t, func(x *Term) {
		if pred(x) {
			found = true
		}
	})
	return found
}

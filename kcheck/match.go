package main

// Small matching helpers over Terms / Effects shared by the rules.

import (
	"fmt"
	"go/constant"
	"go/types"
	"sort"
	"strings"

	"golang.org/x/tools/go/ssa"
)

// isInvoke: t is a call of interface method `method`; returns receiver, args.
func isInvoke(t *Term, method string) (*Term, []*Term, bool) {
	if t != nil && t.K == "invoke" && t.S == method {
		return t.A[0], t.A[1:], true
	}
	return nil, nil, false
}

// isCall: t is a static call of the function with short name `name`.
func isCall(t *Term, name string) ([]*Term, bool) {
	if t != nil && t.K == "call" && t.S == name {
		return t.A, true
	}
	return nil, false
}

func sameTerm(a, b *Term) bool { return a != nil && b != nil && a.Key() == b.Key() }

// constStringTerm returns the canonical literal of a package-level string constant.
func (p *Prog) constLit(rel, name string) (string, bool) {
	sp := p.Pkg(rel)
	if sp == nil {
		return "", false
	}
	c, ok := sp.Pkg.Scope().Lookup(name).(*types.Const)
	if !ok {
		return "", false
	}
	if c.Val().Kind() == constant.String {
		return fmt.Sprintf("%q", constant.StringVal(c.Val())), true
	}
	return c.Val().ExactString(), true
}

// eqConst: t is (x == lit) (in either operand order) ; returns x.
func eqConst(t *Term, lit string) (*Term, bool) {
	if t == nil || t.K != "binop" || t.S != "==" {
		return nil, false
	}
	if t.A[0].K == "const" && t.A[0].S == lit {
		return t.A[1], true
	}
	if t.A[1].K == "const" && t.A[1].S == lit {
		return t.A[0], true
	}
	return nil, false
}

// isNilTest: t is (x == nil); returns x.
func isNilTest(t *Term) (*Term, bool) { return eqConst(t, "nil") }

// relBetween returns the order mask recorded on path pa between a and b
// (mask of "a ? b"); full mask if unconstrained.
func relBetween(pa *Path, a, b *Term) int {
	ak, bk := a.Key(), b.Key()
	flip := false
	if ak > bk {
		ak, bk = bk, ak
		flip = true
	}
	m, ok := pa.Rel[ak+" ? "+bk]
	if !ok {
		return relLT | relEQ | relGT
	}
	if flip {
		m = mirrorMask(m)
	}
	return m
}

// litVal finds the truth value of the literal with canonical key on path.
func litVal(pa *Path, key string) (bool, bool) {
	for _, l := range pa.Lits {
		if l.T.Key() == key {
			return l.Val, true
		}
	}
	return false, false
}

// effect filters
func (e *Effect) IsPure() bool {
	switch e.Kind {
	case "call", "invoke":
		return e.Res != nil && e.Res.ID == ""
	}
	return false
}

// chosenSel returns the select effects of a path in order.
func selectsOf(pa *Path) []*Effect {
	var out []*Effect
	for _, e := range pa.Effects {
		if e.Kind == "select" {
			out = append(out, e)
		}
	}
	return out
}

// armLabel renders the chosen arm of a select effect, canonical.
func armLabel(e *Effect) string {
	if e.Arm < 0 {
		return "default"
	}
	s := e.Sel[e.Arm]
	if s.Dir == types.SendOnly {
		return "send " + s.Chan.Key()
	}
	return "recv " + s.Chan.Key()
}

// ---------- SSA helpers ----------

// autoInline: same-repository static callees without loops, channel ops,
// goroutines or defers, at most maxBlocks blocks.  This is what makes the
// tables tolerant to "extract a helper" refactorings.
func autoInline(p *Prog, root *ssa.Function, maxBlocks int) map[*ssa.Function]bool {
	out := map[*ssa.Function]bool{}
	var visit func(f *ssa.Function, depth int)
	visit = func(f *ssa.Function, depth int) {
		if depth > 2 {
			return
		}
		for _, b := range f.Blocks {
			for _, in := range b.Instrs {
				call, ok := in.(*ssa.Call)
				if !ok {
					continue
				}
				g := call.Call.StaticCallee()
				if g == nil || g.Blocks == nil || out[g] || g == root || !inRepo(g) {
					continue
				}
				if g.Pkg != root.Pkg {
					continue
				}
				if _, pure := pureStatic[fnName(g)]; pure {
					continue
				}
				if !simpleHelper(g, maxBlocks) {
					continue
				}
				out[g] = true
				visit(g, depth+1)
			}
		}
	}
	visit(root, 0)
	return out
}

// neverInline: functions the rules recognise by name as one abstract step
// (cache handlers, distributors, constructors, adapters); inlining them would
// dissolve the very effect a table expects to see.
var neverInline = map[string]bool{
	"_cache.doSync": true, "_cache.doUpdate": true, "_cache.doRefilter": true, "_cache.doList": true, "_cache.Get": true,
	"controller.distributeEvents": true, "filterSubscription.distributeEvents": true, "publisher.distributeEvent": true,
	"publisher.createSubscription": true, "publisher.Subscribe": true, "publisher.SubscribeWithFilter": true, "publisher.SubscribeForFilter": true,
	"_lister.list": true, "_lister.executeList": true, "_ticker.nextPeriod": true, "_watchSession.connect": true,
	"listResourceVersion": true, "extractList": true, "InvolvedFilter": true, "Selector": true,
	"listerBuilder.Client": true, "watcherBuilder.Client": true,
	"_adapter.adaptObject": true, "_adapter.adaptList": true, "wrapEvent": true, "buildServicesFilter": true,
}

func neverInlined(g *ssa.Function) bool {
	n := g.Name()
	if strings.HasPrefix(n, "new") || strings.HasPrefix(n, "New") || strings.HasPrefix(n, "Build") || strings.HasPrefix(n, "make") {
		return true
	}
	full := fnName(g)
	if i := strings.LastIndex(full, ":"); i >= 0 {
		full = full[i+1:]
	}
	return neverInline[full]
}

func simpleHelper(g *ssa.Function, maxBlocks int) bool {
	if len(g.Blocks) > maxBlocks || neverInlined(g) {
		return false
	}
	for _, b := range g.Blocks {
		for _, s := range b.Succs {
			if s.Dominates(b) {
				return false // loop
			}
		}
		for _, in := range b.Instrs {
			switch in.(type) {
			case *ssa.Go, *ssa.Defer, *ssa.MakeClosure:
				return false
			}
			_ = in
		}
	}
	return true
}

// fieldAccesses lists every instruction in repository functions that takes
// the address of / reads field `field` of named struct type `typeName`
// declared in package rel.
type fieldAccess struct {
	Fn *ssa.Function
	In ssa.Instruction
}

func (p *Prog) fieldAccesses(rel, typeName, field string) []fieldAccess {
	var out []fieldAccess
	match := func(t types.Type, idx int) bool {
		if pt, ok := t.Underlying().(*types.Pointer); ok {
			t = pt.Elem()
		}
		n, ok := t.(*types.Named)
		if !ok || n.Obj().Name() != typeName || n.Obj().Pkg() == nil {
			return false
		}
		want := modPath
		if rel != "" {
			want += "/" + rel
		}
		if n.Obj().Pkg().Path() != want {
			return false
		}
		st, ok := n.Underlying().(*types.Struct)
		return ok && idx < st.NumFields() && st.Field(idx).Name() == field
	}
	for _, r := range p.repoRels() {
		for _, f := range p.SrcFuncs(r) {
			for _, b := range f.Blocks {
				for _, in := range b.Instrs {
					switch x := in.(type) {
					case *ssa.FieldAddr:
						if match(x.X.Type(), x.Field) {
							out = append(out, fieldAccess{f, in})
						}
					case *ssa.Field:
						if match(x.X.Type(), x.Field) {
							out = append(out, fieldAccess{f, in})
						}
					}
				}
			}
		}
	}
	return out
}

// callersOf lists repository call/go/defer sites whose static callee is f,
// plus uses of f as a value (method values, closures passed around).
type callSite struct {
	Fn   *ssa.Function
	In   ssa.Instruction
	Kind string // call | go | defer | value
}

func (p *Prog) callersOf(target *ssa.Function) []callSite {
	var out []callSite
	for _, r := range p.repoRels() {
		for _, f := range p.SrcFuncs(r) {
			for _, b := range f.Blocks {
				for _, in := range b.Instrs {
					var cc *ssa.CallCommon
					kind := ""
					switch x := in.(type) {
					case *ssa.Call:
						cc, kind = &x.Call, "call"
					case *ssa.Go:
						cc, kind = &x.Call, "go"
					case *ssa.Defer:
						cc, kind = &x.Call, "defer"
					}
					if cc != nil && cc.StaticCallee() == target {
						out = append(out, callSite{f, in, kind})
					}
					// value uses
					for _, op := range in.Operands(nil) {
						if *op == nil {
							continue
						}
						if fn, ok := (*op).(*ssa.Function); ok && fn == target {
							if cc != nil && cc.Value == fn {
								continue
							}
							out = append(out, callSite{f, in, "value"})
						}
					}
				}
			}
		}
	}
	return out
}

func sortedKeys[V any](m map[string]V) []string {
	var ks []string
	for k := range m {
		ks = append(ks, k)
	}
	sort.Strings(ks)
	return ks
}

func joinSorted(xs []string) string {
	ys := append([]string(nil), xs...)
	sort.Strings(ys)
	return strings.Join(ys, "; ")
}

// typeNameOf returns the bare named-type name behind pointers.
func typeNameOf(t types.Type) string {
	for {
		if p, ok := t.(*types.Pointer); ok {
			t = p.Elem()
			continue
		}
		break
	}
	if n, ok := t.(*types.Named); ok {
		return n.Obj().Name()
	}
	return t.String()
}

// selRecvTerm returns the term of the value received by the chosen arm of a
// select effect.  go/ssa's Select tuple has one r_i per *receive* state, so
// the slot is the ordinal of the arm among the receive states.
func selRecvTerm(e *Effect) *Term {
	if e == nil || e.Arm < 0 || e.Arm >= len(e.Sel) || e.Sel[e.Arm].Dir == types.SendOnly {
		return nil
	}
	ord := 0
	for i := 0; i < e.Arm; i++ {
		if e.Sel[i].Dir != types.SendOnly {
			ord++
		}
	}
	return &Term{K: "selrecv", S: fmt.Sprint(ord), A: []*Term{e.Res}}
}

// phiRoles names the phis of a loop header by role.  Each role has a
// predicate; a role is assigned only when exactly one phi satisfies it, so a
// renamed local keeps its role and an ambiguous shape keeps source names
// (which then fail to match the reference: undecided rather than wrong).
func phiRoles(header *ssa.BasicBlock, roles map[string]func(*ssa.Phi) bool) map[*ssa.Phi]string {
	out := map[*ssa.Phi]string{}
	for role, pred := range roles {
		var hit []*ssa.Phi
		for _, in := range header.Instrs {
			phi, ok := in.(*ssa.Phi)
			if !ok {
				break
			}
			if pred(phi) {
				hit = append(hit, phi)
			}
		}
		if len(hit) == 1 {
			out[hit[0]] = role
		}
	}
	return out
}

func phiTypeIs(s string) func(*ssa.Phi) bool {
	return func(p *ssa.Phi) bool { return typeStr(p.Type()) == s }
}

// ownerClosure returns the set of functions that run on the goroutine of
// entry `run` only: run itself plus every same-package function all of whose
// uses are plain calls from functions already in the set (so that an
// "extract helper" refactoring keeps code inside its owner).
func (p *Prog) ownerClosure(run *ssa.Function) map[*ssa.Function]bool {
	set := map[*ssa.Function]bool{run: true}
	if run == nil || run.Pkg == nil {
		return set
	}
	rel := strings.TrimPrefix(strings.TrimPrefix(run.Pkg.Pkg.Path(), modPath), "/")
	cands := p.SrcFuncs(rel)
	for changed := true; changed; {
		changed = false
		for _, f := range cands {
			if set[f] || f.Parent() != nil {
				continue
			}
			cs := p.callersOf(f)
			if len(cs) == 0 {
				continue
			}
			ok := true
			for _, s := range cs {
				if s.Kind != "call" || !set[s.Fn] {
					ok = false
				}
			}
			if ok {
				set[f] = true
				changed = true
			}
		}
	}
	return set
}

// ownedBy reports whether f is run or one of run's private helpers.
func (p *Prog) ownedBy(f *ssa.Function, runRel, runName string) bool {
	run := p.Func(runRel, runName)
	if run == nil {
		return false
	}
	return p.ownerClosure(run)[f]
}

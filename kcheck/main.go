package main

import (
	"flag"
	"fmt"
	"os"
	"strings"
)

func main() {
	var (
		repo    = flag.String("repo", "/repo", "repository working tree to analyse")
		prop    = flag.String("prop", "", "property id (C01..C20) or 'all'")
		tier    = flag.String("tier", "", "quick|thorough (default: $VERIF_TIER or quick)")
		dump    = flag.String("dump", "", "debug: dump paths of function (pkgrel:Func or Func)")
		region  = flag.String("region", "func", "debug: func | loop<N> (N-th loop by header index)")
		inline  = flag.String("inline", "", "debug: comma-separated functions to inline")
		explain = flag.String("explain", "", "re-evaluate the obligation recorded in a violation file")
		evdir   = flag.String("evidence", "/verif/evidence", "evidence directory")
		kf      = flag.String("known", "/verif/known_findings.json", "known findings file")
		ov      = flag.String("overlay", "", "audit only: comma-separated orig=replacement source overlays")
		inv     = flag.Bool("inventory", false, "debug: print the blocking-operation and goroutine inventory as markdown")
	)
	flag.Parse()
	for _, kv := range strings.Split(*ov, ",") {
		if i := strings.Index(kv, "="); i > 0 {
			overlays[kv[:i]] = kv[i+1:]
		}
	}
	if *tier == "" {
		*tier = os.Getenv("VERIF_TIER")
	}
	if *tier != "thorough" {
		*tier = "quick"
	}
	if *inv {
		p, err := loadProg(*repo)
		if err != nil {
			fmt.Fprintln(os.Stderr, err)
			os.Exit(2)
		}
		c := newCtx(p, "inventory", "quick")
		runs := findRunFuncs(p, rootRels)
		fmt.Println("| function | operation | class | justification |\n|---|---|---|---|")
		for _, s := range buildInventory(c, rootRels, runs) {
			cl := s.Class
			if cl == "" {
				cl = "**unclassified**"
			}
			fmt.Printf("| `%s` | `%s` | %s | %s |\n", fnName(s.Fn), s.Desc, cl, s.Why)
		}
		return
	}
	if *dump != "" {
		p, err := loadProg(*repo)
		if err != nil {
			fmt.Fprintln(os.Stderr, err)
			os.Exit(2)
		}
		debugDump(p, *dump, *region, *inline)
		return
	}
	os.Exit(runChecks(*repo, *prop, *tier, *evdir, *kf, *explain))
}

func splitFn(s string) (rel, name string) {
	if i := strings.Index(s, ":"); i >= 0 {
		return s[:i], s[i+1:]
	}
	return "", s
}

func debugDump(p *Prog, target, region, inline string) {
	rel, name := splitFn(target)
	fn := p.Func(rel, name)
	if fn == nil {
		fmt.Println("no such function", target)
		os.Exit(2)
	}
	w := &Walker{P: p}
	if inline != "" {
		w.Inline = map[*ssaFunction]bool{}
	}
	for _, s := range strings.Split(inline, ",") {
		if s == "" || s == "none" {
			continue
		}
		r, n := splitFn(s)
		if f := p.Func(r, n); f != nil {
			w.Inline[f] = true
		} else {
			fmt.Println("inline: no such function", s)
		}
	}
	var paths []*Path
	if strings.HasPrefix(region, "loop") {
		var n int
		fmt.Sscanf(region, "loop%d", &n)
		loops := findLoops(fn)
		if n >= len(loops) {
			fmt.Println("only", len(loops), "loops")
			os.Exit(2)
		}
		fmt.Printf("loop header block %d (%s), %d body blocks\n", loops[n].Header.Index, loops[n].Header.Comment, len(loops[n].Body))
		paths = w.LoopRegion(fn, loops[n])
	} else {
		paths = w.FuncRegion(fn)
	}
	fmt.Printf("%s: %d paths (truncated=%v)\n", fnName(fn), len(paths), w.Truncated)
	fmt.Print(dumpPaths(p, paths))
}

package main

// filterSubscription.run transition table (C06, C07, C08) and supporting flows.

import (
	"fmt"
	"strings"

	"golang.org/x/tools/go/ssa"
)

// mainLoop returns the loop of fn that contains a blocking select (the actor loop).
func mainLoop(fn *ssa.Function) *Loop {
	if l := mainLoopIn(fn); l != nil {
		return l
	}
	// the loop may have been moved into a private helper that the actor function calls
	// exactly once, synchronously ("run() { …; x.serve(…); … }")
	var found *Loop
	n := 0
	for _, b := range fn.Blocks {
		for _, in := range b.Instrs {
			call, ok := in.(*ssa.Call)
			if !ok {
				continue
			}
			g := call.Call.StaticCallee()
			if g == nil || g.Pkg != fn.Pkg || g.Blocks == nil || g == fn || neverInlined(g) {
				continue
			}
			if l := mainLoopIn(g); l != nil {
				l.Via = call
				found = l
				n++
			}
		}
	}
	if n == 1 {
		return found
	}
	return nil
}

func mainLoopIn(fn *ssa.Function) *Loop {
	loops := findLoops(fn)
	var best *Loop
	for _, l := range loops {
		for b := range l.Body {
			for _, in := range b.Instrs {
				if s, ok := in.(*ssa.Select); ok && s.Blocking {
					if best == nil || l.Header.Index < best.Header.Index {
						best = l
					}
				}
			}
		}
	}
	return best
}

// errAtom: literal is (extract:1(X) == nil) for a call X of method `method`.
func errNilOfInvoke(t *Term, method string) (*Term, bool) {
	x, ok := isNilTest(t)
	if !ok || x.K != "extract" || x.S != "1" {
		return nil, false
	}
	if x.A[0].K == "invoke" && x.A[0].S == method {
		return x.A[0], true
	}
	return nil, false
}

func checkFilterSubscriptionTable(c *Ctx) {
	fn := c.mustFunc("", "filterSubscription.run")
	if fn == nil {
		return
	}
	rule := "T-TABLE(filterSubscription.run)"
	pos := c.P.fnPos(fn)
	loop := mainLoop(fn)
	if loop == nil {
		c.undecided(rule, "filterSubscription.run/shape", pos, "no actor loop with a blocking select found")
		return
	}
	roles := phiRoles(loop.Header, map[string]func(*ssa.Phi) bool{
		"preadych": phiTypeIs("<-chan struct{}"),
		"ready":    func(p *ssa.Phi) bool { return typeStr(p.Type()) == "bool" && setTrueAfterClose(p, "readych") },
		"pending":  func(p *ssa.Phi) bool { return typeStr(p.Type()) == "bool" && !setTrueAfterClose(p, "readych") },
	})
	w := &Walker{P: c.P, Inline: autoInline(c.P, fn, 16), PhiNames: roles}
	paths := w.IterRegion(fn, loop)
	if w.Truncated {
		c.undecided(rule, "filterSubscription.run/too-many-paths", pos, "path limit exceeded")
		return
	}
	isParent := func(t *Term) bool { return t.IsRecvField("parent") }
	isOwnCache := func(t *Term) bool { return t.IsRecvField("cache") }
	isLC := func(t *Term) bool { return t.IsRecvField("lc") }
	// parentList: extract:0(invoke:List(invoke:Cache(s.parent)))
	isParentListCall := func(t *Term) bool {
		if t == nil || t.K != "invoke" || t.S != "List" {
			return false
		}
		r, _, ok := isInvoke(t.A[0], "Cache")
		return ok && isParent(r)
	}
	isL := func(t *Term) bool { return t != nil && t.K == "extract" && t.S == "0" && isParentListCall(t.A[0]) }
	armOf := func(pa *Path) (string, *Effect) {
		for _, e := range pa.Effects {
			if e.Kind == "select" && e.Blocking {
				if e.Arm < 0 {
					return "?", e
				}
				ch := e.Sel[e.Arm].Chan
				switch {
				case ch.K == "invoke" && ch.S == "ShutdownRequest" && isLC(ch.A[0]):
					return "shutdown", e
				case ch.K == "phi" && ch.S == "preadych":
					return "pready", e
				case ch.IsRecvField("refilterch"):
					return "refilter", e
				case ch.K == "invoke" && ch.S == "Events" && isParent(ch.A[0]):
					return "event", e
				}
				return "?" + ch.Key(), e
			}
		}
		return "?", nil
	}
	recvOf := func(pa *Path) *Term {
		_, e := armOf(pa)
		if e == nil {
			return nil
		}
		return selRecvTerm(e)
	}
	ts := &tableSpec{
		Rule:   rule,
		Region: "one iteration of filterSubscription.run",
		Atoms: []atomSpec{{"arm", []string{"shutdown", "pready", "refilter", "event"}}, {"P", boolDom}, {"pending", boolDom}, {"ready", boolDom}, {"D", boolDom},
			{"isNew", boolDom}, {"ok", boolDom}, {"errList", boolDom}, {"errSync", boolDom}, {"errRefilter", boolDom}, {"errUpdate", boolDom}},
		Lit: func(pa *Path, l Lit) litClass {
			t := l.T
			if x, ok := isNilTest(t); ok && x.K == "phi" && x.S == "preadych" {
				return litClass{Atom: "P", IfTrue: []string{"F"}, OK: true}
			}
			if t.K == "phi" && t.S == "pending" {
				return litClass{Atom: "pending", IfTrue: []string{"T"}, OK: true}
			}
			if t.K == "phi" && t.S == "ready" {
				return litClass{Atom: "ready", IfTrue: []string{"T"}, OK: true}
			}
			if t.IsRecvField("deferReady") {
				return litClass{Atom: "D", IfTrue: []string{"T"}, OK: true}
			}
			if args, ok := isCall(t, "filter:FiltersEqual"); ok && len(args) == 2 {
				rv := recvOf(pa)
				if args[0].IsRecvField("filter") && sameTerm(args[1], rv) || args[1].IsRecvField("filter") && sameTerm(args[0], rv) {
					return litClass{Atom: "isNew", IfTrue: []string{"F"}, OK: true}
				}
			}
			if t.K == "selok" {
				return litClass{Atom: "ok", IfTrue: []string{"T"}, OK: true}
			}
			if x, ok := errNilOfInvoke(t, "List"); ok && isParentListCall(x) {
				return litClass{Atom: "errList", IfTrue: []string{"F"}, OK: true}
			}
			if x, ok := errNilOfInvoke(t, "sync"); ok && isOwnCache(x.A[0]) {
				return litClass{Atom: "errSync", IfTrue: []string{"F"}, OK: true}
			}
			if x, ok := errNilOfInvoke(t, "refilter"); ok && isOwnCache(x.A[0]) {
				return litClass{Atom: "errRefilter", IfTrue: []string{"F"}, OK: true}
			}
			if x, ok := errNilOfInvoke(t, "update"); ok && isOwnCache(x.A[0]) {
				return litClass{Atom: "errUpdate", IfTrue: []string{"F"}, OK: true}
			}
			return litClass{}
		},
		Extra: func(pa *Path) map[string][]string {
			a, _ := armOf(pa)
			return map[string][]string{"arm": {a}}
		},
		Outcome: func(pa *Path) ([]string, string) {
			var out []string
			rv := recvOf(pa)
			arm, _ := armOf(pa)
			if strings.HasPrefix(arm, "?") {
				return nil, "unknown select arm " + arm
			}
			for _, e := range pa.Effects {
				switch e.Kind {
				case "select":
					if !e.Blocking {
						return nil, "nested non-blocking select"
					}
				case "call":
					if e.IsPure() {
						continue
					}
					if e.Fn != nil && fnName(e.Fn) == "filterSubscription.distributeEvents" {
						a := sliceArg(e)
						src := "OTHER:" + a.Key()
						if a.K == "extract" && a.S == "0" && a.A[0].K == "invoke" && isOwnCache(a.A[0].A[0]) {
							switch a.A[0].S {
							case "refilter":
								src = "refilter-events"
							case "update":
								src = "update-events"
							case "sync":
								src = "sync-events"
							}
						}
						out = append(out, "distribute("+src+")")
						continue
					}
					return nil, "unexpected call: " + e.String()
				case "invoke":
					switch {
					case e.IsPure():
					case e.Method == "Cache" && isParent(e.Recv):
					case e.Method == "List" && isParentListCall(e.Res):
						out = append(out, "L:=parent.Cache().List()")
					case e.Method == "sync" && isOwnCache(e.Recv):
						if isL(e.Args[0]) {
							out = append(out, "cache.sync(L)")
						} else {
							out = append(out, "cache.sync(OTHER:"+e.Args[0].Key()+")")
						}
					case e.Method == "refilter" && isOwnCache(e.Recv):
						f := "OTHER"
						if sameTerm(e.Args[1], rv) && arm == "refilter" {
							f = "f"
						}
						switch {
						case e.Args[0].IsNil():
							out = append(out, "cache.refilter(nil,"+f+")")
						case isL(e.Args[0]):
							out = append(out, "cache.refilter(L,"+f+")")
						default:
							out = append(out, "cache.refilter(OTHER,"+f+")")
						}
					case e.Method == "update" && isOwnCache(e.Recv):
						if sameTerm(e.Args[0], rv) && arm == "event" {
							out = append(out, "cache.update(evt)")
						} else {
							out = append(out, "cache.update(OTHER)")
						}
					case e.Method == "ShutdownInitiated" && isLC(e.Recv):
						out = append(out, "initiate")
					case e.Method == "ShutdownCompleted" && isLC(e.Recv):
					case e.Method == "Close" && isParent(e.Recv):
						out = append(out, "parent.Close")
					case e.Method == "Ready" && isParent(e.Recv), e.Method == "Events" && isParent(e.Recv):
					default:
						return nil, "unexpected call: " + e.String()
					}
				case "store":
					if e.Addr.K == "faddr" && e.Addr.S == "filter" && e.Addr.A[0].K == "param" {
						if sameTerm(e.Val, rv) && arm == "refilter" {
							out = append(out, "s.filter:=f")
						} else {
							out = append(out, "s.filter:=OTHER")
						}
						continue
					}
					return nil, "unexpected store: " + e.String()
				case "close":
					switch {
					case e.Addr.IsRecvField("readych"):
						out = append(out, "close(readych)")
					case e.Addr.IsRecvField("outch"):
						out = append(out, "close(outch)")
					default:
						return nil, "unexpected close: " + e.String()
					}
				case "recv":
					if r, _, ok := isInvoke(e.Addr, "Done"); ok && isParent(r) {
						out = append(out, "wait(parent.Done)")
						continue
					}
					return nil, "unexpected receive: " + e.String()
				case "rundefers", "defer":
				default:
					return nil, "unexpected effect: " + e.String()
				}
			}
			switch pa.End.Kind {
			case "stop":
				for name, v := range pa.PhiNext {
					unchanged := v.K == "phi" && v.S == name
					if unchanged {
						continue
					}
					switch name {
					case "preadych":
						if v.IsNil() {
							out = append(out, "P'=F")
						} else {
							out = append(out, "preadych'=OTHER")
						}
					case "pending", "ready":
						if v.K == "const" && v.S == "true" {
							out = append(out, name+"'=T")
						} else {
							out = append(out, name+"'=OTHER:"+v.Key())
						}
					default:
						out = append(out, name+"'=CHANGED")
					}
				}
			case "return":
				out = append(out, "exit")
			default:
				return nil, "path ends in " + pa.End.Kind
			}
			return out, ""
		},
		Expected: func(v map[string]string) [][]string {
			T := func(a string) bool { return v[a] == "T" }
			exit := func(pre ...string) [][]string {
				return [][]string{append(pre, "initiate", "exit", "parent.Close", "close(outch)", "wait(parent.Done)")}
			}
			L := "L:=parent.Cache().List()"
			switch v["arm"] {
			case "shutdown":
				return exit()
			case "pready":
				if !T("P") {
					return nil // a nil channel never fires
				}
				if T("D") && !T("pending") {
					return [][]string{{"P'=F"}}
				}
				if T("errList") {
					return exit(L)
				}
				if T("errSync") {
					return exit(L, "cache.sync(L)")
				}
				return [][]string{{L, "cache.sync(L)", "close(readych)", "P'=F", "ready'=T"}}
			case "refilter":
				if T("P") && T("ready") {
					return nil // unreachable: ready implies parent seen ready
				}
				if T("P") {
					if !T("isNew") {
						return [][]string{{"pending'=T"}}
					}
					if T("errRefilter") {
						return exit("cache.refilter(nil,f)")
					}
					return [][]string{{"cache.refilter(nil,f)", "s.filter:=f", "pending'=T"}}
				}
				if !T("isNew") {
					if T("ready") {
						return [][]string{{}}
					}
					return [][]string{{"close(readych)", "ready'=T"}}
				}
				if T("errList") {
					return exit(L)
				}
				if T("errRefilter") {
					return exit(L, "cache.refilter(L,f)")
				}
				if !T("ready") {
					return [][]string{{L, "cache.refilter(L,f)", "s.filter:=f", "close(readych)", "ready'=T"}}
				}
				return [][]string{{L, "cache.refilter(L,f)", "s.filter:=f", "distribute(refilter-events)"}}
			case "event":
				if !T("ok") {
					return exit()
				}
				if !T("ready") {
					return [][]string{{}}
				}
				if T("errUpdate") {
					return exit("cache.update(evt)")
				}
				return [][]string{{"cache.update(evt)", "distribute(update-events)"}}
			}
			return nil
		},
	}
	rows := c.runTable(ts, "filterSubscription.run", pos, paths)
	c.notes = append(c.notes, fmt.Sprintf("filterSubscription.run: %d iteration paths, %d abstract rows", len(paths), rows))

	// prelude: preadych := s.parent.Ready(); pending, ready := false, false
	pre := (&Walker{P: c.P, PhiNames: roles}).PreludeRegion(fn, loop)
	c.paths += len(pre)
	okk := len(pre) == 1
	detail := ""
	if okk {
		nx := pre[0].PhiNext
		if r, _, ok := isInvoke(nx["preadych"], "Ready"); !(ok && isParent(r)) {
			okk, detail = false, "preadych is initialised to "+nx["preadych"].Key()+", not s.parent.Ready()"
		}
		for _, n := range []string{"pending", "ready"} {
			if nx[n] == nil || nx[n].Key() != "false" {
				okk, detail = false, n+" does not start false"
			}
		}
	} else {
		detail = "prelude is not straight-line"
	}
	c.check(okk, rule, "filterSubscription.run/initial-state", pos, "preadych=parent.Ready(), pending=false, ready=false", "filterSubscription.run initial state: "+detail)
}

// checkFilterSubscriptionFlows: constructor and accessor plumbing.
func checkFilterSubscriptionFlows(c *Ctx) {
	rule := "T-FLOW(filterSubscription)"
	// newFilterSubscription: private cache built with f and the own lc's ShuttingDown; filter field = f; fresh readych/outch
	if fn := c.mustFunc("", "newFilterSubscription"); fn != nil {
		pos := c.P.fnPos(fn)
		w := &Walker{P: c.P}
		paths := w.FuncRegion(fn)
		c.paths += len(paths)
		if len(paths) != 1 || len(fn.Params) != 4 {
			c.fail(rule, "newFilterSubscription/shape", pos, "constructor is not straight-line with (log,parent,f,deferReady)")
		} else {
			pa := paths[0]
			fP, parentP, deferP := fn.Params[2].Name(), fn.Params[1].Name(), fn.Params[3].Name()
			stores := map[string]*Term{}
			var goRun bool
			for _, e := range pa.Effects {
				if e.Kind == "store" && e.Addr.K == "faddr" {
					stores[e.Addr.S] = e.Val
				}
				if e.Kind == "go" && e.Fn != nil && fnName(e.Fn) == "filterSubscription.run" {
					goRun = true
				}
			}
			isParam := func(t *Term, n string) bool { return t != nil && t.K == "param" && t.S == n }
			c.check(isParam(stores["filter"], fP), rule, "newFilterSubscription/filter-field=f", pos, "", "s.filter is not initialised with the constructor's filter (the first Refilter equality test would compare against the wrong filter)")
			c.check(isParam(stores["parent"], parentP), rule, "newFilterSubscription/parent-field=parent", pos, "", "s.parent is not the constructor's parent")
			c.check(isParam(stores["deferReady"], deferP), rule, "newFilterSubscription/deferReady-field", pos, "", "s.deferReady is not the constructor's flag")
			ca := stores["cache"]
			okc := false
			if args, ok := isCall(ca, "newCache"); ok && len(args) == 4 {
				stop := args[2]
				r, _, ok2 := isInvoke(stop, "ShuttingDown")
				okc = isParam(args[3], fP) && ok2 && sameTerm(r, stores["lc"])
			}
			c.check(okc, rule, "newFilterSubscription/private-cache(f, own-stop-channel)", pos, "", "the private cache is not built with the subscription's filter and its own lifecycle's ShuttingDown() as stop channel")
			for _, ch := range []string{"readych", "outch", "refilterch"} {
				c.check(stores[ch] != nil && stores[ch].K == "makechan", rule, "newFilterSubscription/"+ch+"-fresh", pos, "", ch+" is not a freshly made channel")
			}
			c.check(goRun, rule, "newFilterSubscription/starts-run", pos, "", "run is not started")
		}
	}
	// accessors
	for _, acc := range [][3]string{{"filterSubscription.Cache", "cache", ""}, {"filterSubscription.Ready", "readych", ""}, {"filterSubscription.Events", "outch", ""}} {
		if fn := c.mustFunc("", acc[0]); fn != nil {
			paths := (&Walker{P: c.P}).FuncRegion(fn)
			c.paths += len(paths)
			ok := len(paths) == 1 && len(paths[0].End.Results) == 1 && paths[0].End.Results[0].IsRecvField(acc[1])
			c.check(ok, rule, acc[0]+"/returns-own-"+acc[1], c.P.fnPos(fn), "", acc[0]+" does not return the subscription's own "+acc[1])
		}
	}
	// every construction with deferReady=true starts from the reject-all filter
	nf := c.P.Func("", "newFilterSubscription")
	if nf != nil {
		n := 0
		for _, cs := range c.P.callersOf(nf) {
			call, ok := cs.In.(*ssa.Call)
			if !ok || cs.Kind != "call" {
				c.fail(rule, "newFilterSubscription/used-as-"+cs.Kind+"-in/"+fnName(cs.Fn), c.P.instrPos(cs.In), "newFilterSubscription used other than by a plain call")
				continue
			}
			n++
			c.sites++
			args := call.Call.Args
			def, isConst := args[3].(*ssa.Const)
			w := &Walker{P: c.P}
			st := newState()
			ft := w.eval(st, &frame{fn: cs.Fn}, args[2])
			key := "newFilterSubscription/call-in/" + fnName(cs.Fn)
			switch {
			case !isConst:
				c.undecided(rule, key, c.P.instrPos(cs.In), "deferReady argument is not a constant")
			case def.Value != nil && def.Value.String() == "true":
				_, isAll := isCall(ft, "filter:All")
				c.check(isAll, rule, key+"[deferred]", c.P.instrPos(cs.In), "deferred subscription starts from filter.All()",
					"a deferred (for-filter) subscription is created with initial filter "+ft.Key()+" instead of filter.All(): Refilter with an equal filter then closes Ready() over a cache that was never synced")
			default:
				c.check(ft.K == "param", rule, key+"[immediate]", c.P.instrPos(cs.In), "immediate subscription uses the caller's filter", "an immediate filtered subscription is created with "+ft.Key()+" instead of the caller's filter")
			}
		}
		c.check(n >= 2, rule, "newFilterSubscription/call-sites", "-", fmt.Sprintf("%d call sites", n), "expected the two construction sites (SubscribeWithFilter, SubscribeForFilter)")
	}
	// filter.All() rejects everything / filter.Null() accepts everything: C18
}

// distributeEvents of filterSubscription: one forward range, one non-blocking send per element, of that element
func checkFSubDistribute(c *Ctx) {
	fn := c.mustFunc("", "filterSubscription.distributeEvents")
	if fn == nil {
		return
	}
	checkRangeSendAll(c, "T-SHAPE(distribute)", fn, func(e *Effect, elem *Term) (bool, string) {
		if e.Kind == "select" {
			if e.Blocking {
				return false, "blocking select in event distribution"
			}
			n := 0
			for _, s := range e.Sel {
				if s.Send != nil && s.Chan.IsRecvField("outch") && sameTerm(s.Send, elem) {
					n++
				}
			}
			if n != 1 || len(e.Sel) != 1 {
				return false, "the select does not send exactly the ranged element on s.outch"
			}
			return true, ""
		}
		return false, ""
	})
}

// checkRangeSendAll: fn is `for _, x := range param { <one delivery of x> }`:
// single loop over the slice parameter, index advancing by one from zero, no
// early exit, exactly one delivery effect per iteration, none outside.
func checkRangeSendAll(c *Ctx, rule string, fn *ssa.Function, isDelivery func(e *Effect, elem *Term) (bool, string)) {
	pos := c.P.fnPos(fn)
	name := fnName(fn)
	loops := findLoops(fn)
	if len(loops) != 1 {
		c.fail(rule, name+"/single-forward-range", pos, fmt.Sprintf("expected a single range loop, found %d loops", len(loops)))
		return
	}
	l := loops[0]
	w := &Walker{P: c.P}
	paths := w.LoopRegion(fn, l)
	c.paths += len(paths)
	sliceP := fn.Params[len(fn.Params)-1].Name()
	okk, detail := true, ""
	iter := 0
	for _, pa := range paths {
		var cont, known bool
		var idx *Term
		for _, lit := range pa.Lits {
			t := lit.T
			if t.K == "binop" && t.S == "<" && t.A[1].K == "len" && t.A[1].A[0].K == "param" && t.A[1].A[0].S == sliceP {
				cont, known, idx = lit.Val, true, t.A[0]
			}
			// other conditions are fine as long as every path delivers once and continues
		}
		if !known {
			okk, detail = false, "loop is not guarded by `index < len(events)`"
			continue
		}
		if !cont {
			continue
		}
		// the index is an induction variable starting at the first element and advancing by one:
		// either the range lowering (phi+1, phi from -1) or an explicit counter (phi from 0)
		var phi *ssa.Phi
		want := ""
		switch {
		case idx.K == "binop" && idx.S == "+" && idx.A[0].K == "phi" && idx.A[1].Key() == "1":
			phi, _ = idx.A[0].V.(*ssa.Phi)
			want = "-1"
		case idx.K == "phi":
			phi, _ = idx.V.(*ssa.Phi)
			want = "0"
		}
		if phi == nil {
			okk, detail = false, "loop index is not an induction variable"
		} else {
			for i, e := range phi.Edges {
				if !l.Body[l.Header.Preds[i]] {
					if cst, ok := e.(*ssa.Const); !ok || cst.Value == nil || cst.Value.String() != want {
						okk, detail = false, "the loop does not start at the first element"
					}
				}
			}
			nx := pa.PhiNext[phi.Comment]
			if pa.End.Kind == "stop" && pa.End.Block == l.Header {
				if nx == nil || !(nx.K == "binop" && nx.S == "+" && nx.A[0].K == "phi" && nx.A[0].V == phi && nx.A[1].Key() == "1") {
					okk, detail = false, "loop index does not advance by one"
				}
			}
		}
		if pa.End.Kind != "stop" || pa.End.Block != l.Header {
			okk, detail = false, "early exit from the distribution loop"
		}
		elem := &Term{K: "index", A: []*Term{{K: "param", S: sliceP}, idx}}
		n := 0
		for _, e := range pa.Effects {
			if e.IsPure() || e.Kind == "rundefers" {
				continue
			}
			d, why := isDelivery(e, elem)
			if why != "" {
				okk, detail = false, why
			}
			if d {
				n++
				continue
			}
			if why == "" {
				okk, detail = false, "unexpected effect in distribution loop: "+e.String()
			}
		}
		// non-blocking select forks into sent/default paths: each has one delivery effect
		if n != 1 {
			okk, detail = false, fmt.Sprintf("%d deliveries per element (want exactly 1)", n)
		}
		iter++
	}
	if iter == 0 {
		okk, detail = false, "no loop iteration path found"
	}
	// no delivery outside the loop
	for _, b := range fn.Blocks {
		if l.Body[b] {
			continue
		}
		for _, in := range b.Instrs {
			switch in.(type) {
			case *ssa.Send, *ssa.Select, *ssa.Go:
				okk, detail = false, "channel operation outside the distribution loop"
			}
		}
	}
	c.check(okk, rule, name+"/each-element-once-in-order", pos, "single forward loop; one delivery per element", name+": "+detail)
}

// setTrueAfterClose: the boolean phi receives `true` along an edge whose
// source block (or its straight-line predecessors) closes the field named f —
// the "ready" flag, as opposed to the other boolean loop variable.
func setTrueAfterClose(p *ssa.Phi, f string) bool {
	for i, e := range p.Edges {
		k, ok := e.(*ssa.Const)
		if !ok || k.Value == nil || k.Value.String() != "true" {
			continue
		}
		b := p.Block().Preds[i]
		for depth := 0; b != nil && depth < 4; depth++ {
			for _, in := range b.Instrs {
				if call, ok := in.(*ssa.Call); ok {
					if bi, ok := call.Call.Value.(*ssa.Builtin); ok && bi.Name() == "close" && strings.HasSuffix(valPath(call.Call.Args[0]), "."+f) {
						return true
					}
				}
			}
			if len(b.Preds) != 1 {
				break
			}
			b = b.Preds[0]
		}
	}
	return false
}

// checkFilterPublisherFlows: CloneWithFilter/CloneForFilter = the
// corresponding filtered subscription wrapped in a publisher fed by that very
// subscription; filterController.Refilter reaches that same subscription;
// SubscribeWithFilter/ForFilter build the filtered subscription over a fresh
// subscription of this publisher.
func checkFilterPublisherFlows(c *Ctx) {
	rule := "T-FLOW(filter-publisher)"
	for _, k := range [][2]string{{"publisher.CloneWithFilter", "SubscribeWithFilter"}, {"publisher.CloneForFilter", "SubscribeForFilter"}} {
		fn := c.mustFunc("", k[0])
		if fn == nil {
			continue
		}
		ok := false
		for _, pa := range pathsOf(c, fn) {
			if pa.End.Kind != "return" || len(pa.End.Results) != 2 || !pa.End.Results[1].IsNil() || !errNilOnPath(pa) {
				continue
			}
			r := pa.End.Results[0]
			a, isNFP := isCall(r, "newFilterPublisher")
			if isNFP && len(a) == 2 && a[1].K == "extract" && a[1].S == "0" && a[1].A[0].K == "call" && a[1].A[0].S == "publisher."+k[1] && isParamT(a[1].A[0].A[0], fn.Params[0].Name()) {
				ok = true
			}
		}
		c.check(ok, rule, k[0]+"/="+k[1]+"+newFilterPublisher", c.P.fnPos(fn), "", k[0]+" is not newFilterPublisher over s."+k[1]+"(…): nested clones would not compose their filters")
	}
	if fn := c.mustFunc("", "newFilterPublisher"); fn != nil {
		ok := false
		for _, pa := range pathsOf(c, fn) {
			var subF, parF *Term
			for _, e := range pa.Effects {
				if e.Kind == "store" && e.Addr.K == "faddr" {
					switch e.Addr.S {
					case "subscription":
						subF = e.Val
					case "parent":
						parF = e.Val
					}
				}
			}
			if subF != nil && parF != nil && isParamT(subF, fn.Params[1].Name()) {
				if a, isNP := isCall(parF, "newPublisher"); isNP && len(a) == 2 && isParamT(a[1], fn.Params[1].Name()) {
					ok = true
				}
			}
		}
		c.check(ok, rule, "newFilterPublisher/publisher-fed-by-the-same-subscription", c.P.fnPos(fn), "", "newFilterPublisher does not build {subscription, newPublisher(log, that subscription)}")
	}
	if fn := c.mustFunc("", "filterController.Refilter"); fn != nil {
		ps := pathsOf(c, fn)
		ok := len(ps) == 1 && len(ps[0].End.Results) == 1
		if ok {
			r := ps[0].End.Results[0]
			ok = r.K == "invoke" && r.S == "Refilter" && r.A[0].IsRecvField("subscription") && len(r.A) == 2 && r.A[1].K == "param"
		}
		c.check(ok, rule, "filterController.Refilter/forwards-to-own-subscription", c.P.fnPos(fn), "", "filterController.Refilter does not forward its filter to the controller's own filtered subscription")
	}
	for _, k := range [][2]string{{"publisher.SubscribeWithFilter", "immediate"}, {"publisher.SubscribeForFilter", "deferred"}, {"publisher.Clone", "clone"}} {
		fn := c.mustFunc("", k[0])
		if fn == nil {
			continue
		}
		ok := false
		for _, pa := range pathsOf(c, fn) {
			if pa.End.Kind != "return" || len(pa.End.Results) != 2 || !pa.End.Results[1].IsNil() || !errNilOnPath(pa) {
				continue
			}
			r := pa.End.Results[0]
			var a []*Term
			var isCtor bool
			if k[1] == "clone" {
				a, isCtor = isCall(r, "newPublisher")
			} else {
				a, isCtor = isCall(r, "newFilterSubscription")
			}
			if isCtor && len(a) >= 2 && a[1].K == "extract" && a[1].S == "0" && a[1].A[0].K == "call" && a[1].A[0].S == "publisher.Subscribe" && isParamT(a[1].A[0].A[0], fn.Params[0].Name()) {
				ok = true
			}
		}
		c.check(ok, rule, k[0]+"/over-a-fresh-subscription-of-this-publisher", c.P.fnPos(fn), "", k[0]+" does not build its result over a fresh s.Subscribe()")
	}
}

// errNilOnPath: the path carries a literal "<some call's error> == nil" that is true
// and none that is false (the success path of an acquire-then-wrap function).
func errNilOnPath(pa *Path) bool {
	seen := false
	for _, l := range pa.Lits {
		if x, ok := isNilTest(l.T); ok && x.K == "extract" && x.S == "1" {
			if !l.Val {
				return false
			}
			seen = true
		}
	}
	return seen
}

// checkCloneFresh: every successful Clone/CloneWithFilter/CloneForFilter call builds a new
// controller over a subscription obtained by that very call; nothing is cached in, or handed out
// from, the publisher (two holders of "their" clone must not end up closing each other's).
func checkCloneFresh(c *Ctx) {
	rule := "T-FLOW(clone-fresh)"
	for _, k := range [][3]string{{"publisher.Clone", "newPublisher", "Subscribe"}, {"publisher.CloneWithFilter", "newFilterPublisher", "SubscribeWithFilter"}, {"publisher.CloneForFilter", "newFilterPublisher", "SubscribeForFilter"}} {
		fn := c.mustFunc("", k[0])
		if fn == nil {
			continue
		}
		ok, detail, good := true, "", 0
		for _, pa := range pathsOf(c, fn) {
			for _, e := range pa.Effects {
				if e.Kind == "store" && e.Addr != nil && e.Addr.K == "faddr" && len(e.Addr.A) == 1 && e.Addr.A[0].K == "param" {
					ok, detail = false, "stores into the publisher (."+e.Addr.S+"): a clone must not be remembered"
				}
			}
			if pa.End.Kind != "return" || len(pa.End.Results) != 2 {
				continue
			}
			if !pa.End.Results[1].IsNil() {
				continue // error path
			}
			r := pa.End.Results[0]
			for r.K == "makeiface" || r.K == "changeiface" || r.K == "convert" {
				r = r.A[0]
			}
			a, isCtor := isCall(r, k[1])
			if !isCtor || len(a) != 2 || !(a[1].K == "extract" && a[1].S == "0" && a[1].A[0].K == "call" && a[1].A[0].S == "publisher."+k[2] && isParamT(a[1].A[0].A[0], fn.Params[0].Name())) {
				ok, detail = false, "a successful path returns "+r.Key()+", not "+k[1]+"(log, the subscription this call obtained from "+k[2]+")"
				continue
			}
			good++
		}
		c.check(ok && good > 0, rule, k[0]+"/new-controller-per-call", c.P.fnPos(fn), "", k[0]+": "+detail+" — every caller must get its own controller, or closing one clone closes its siblings")
	}
}

package main

// controller.run transition table (C03, C14, C08a, C02 rule 2, C04 rule 5).

import (
	"fmt"
	"strings"

	"golang.org/x/tools/go/ssa"
)

func checkControllerTable(c *Ctx) {
	fn := c.mustFunc("", "controller.run")
	if fn == nil {
		return
	}
	rule := "T-TABLE(controller.run)"
	pos := c.P.fnPos(fn)
	loop := mainLoop(fn)
	if loop == nil {
		c.undecided(rule, "controller.run/shape", pos, "no actor loop found")
		return
	}
	roles := phiRoles(loop.Header, map[string]func(*ssa.Phi) bool{"initialized": phiTypeIs("bool")})
	w := &Walker{P: c.P, PhiNames: roles}
	paths := w.IterRegion(fn, loop)
	if w.Truncated {
		c.undecided(rule, "controller.run/too-many-paths", pos, "path limit exceeded")
		return
	}
	fld := func(n string) func(*Term) bool { return func(t *Term) bool { return t.IsRecvField(n) } }
	isLC, isCache, isWatcher, isLister := fld("lc"), fld("cache"), fld("watcher"), fld("lister")
	armOf := func(pa *Path) (string, *Effect) {
		for _, e := range pa.Effects {
			if e.Kind == "select" && e.Blocking {
				if e.Arm < 0 {
					return "?", e
				}
				ch := e.Sel[e.Arm].Chan
				if ch.K == "invoke" {
					switch {
					case ch.S == "ShutdownRequest" && isLC(ch.A[0]):
						return "shutdown", e
					case ch.S == "Done" && isLister(ch.A[0]):
						return "listerDone", e
					case ch.S == "Done" && isWatcher(ch.A[0]):
						return "watcherDone", e
					case ch.S == "Done" && isCache(ch.A[0]):
						return "cacheDone", e
					case ch.S == "Result" && isLister(ch.A[0]):
						return "listResult", e
					case ch.S == "events" && isWatcher(ch.A[0]):
						return "watchEvent", e
					}
				}
				return "?" + ch.Key(), e
			}
		}
		return "?", nil
	}
	recvOf := func(pa *Path) *Term {
		_, e := armOf(pa)
		if e == nil {
			return nil
		}
		return selRecvTerm(e)
	}
	resultField := func(pa *Path, f string) func(*Term) bool {
		rv := recvOf(pa)
		return func(t *Term) bool { return t.IsField(f) && sameTerm(t.A[0], rv) }
	}
	isVerCall := func(pa *Path, t *Term) bool {
		a, ok := isCall(t, "listResourceVersion")
		return ok && len(a) == 1 && resultField(pa, "list")(a[0])
	}
	isExtCall := func(pa *Path, t *Term) bool {
		a, ok := isCall(t, "extractList")
		return ok && len(a) == 1 && resultField(pa, "list")(a[0])
	}
	ex := func(t *Term, i string) *Term {
		if t != nil && t.K == "extract" && t.S == i {
			return t.A[0]
		}
		return nil
	}
	// causeOf classifies the argument of ShutdownInitiated
	causeOf := func(pa *Path, a *Term) string {
		if a.IsNil() {
			return "nil"
		}
		rv := recvOf(pa)
		arm, _ := armOf(pa)
		var found []string
		walkTerm(a, func(x *Term) {
			switch {
			case arm == "shutdown" && sameTerm(x, rv):
				found = append(found, "request-error")
			case x.IsField("err") && sameTerm(x.A[0], rv):
				found = append(found, "result.err")
			case x.K == "extract" && x.S == "1" && isVerCall(pa, x.A[0]):
				found = append(found, "version-err")
			case x.K == "extract" && x.S == "1" && isExtCall(pa, x.A[0]):
				found = append(found, "extract-err")
			case x.K == "extract" && x.S == "1" && x.A[0].K == "invoke" && x.A[0].S == "sync" && isCache(x.A[0].A[0]):
				found = append(found, "sync-err")
			case x.K == "extract" && x.S == "1" && x.A[0].K == "invoke" && x.A[0].S == "update" && isCache(x.A[0].A[0]):
				found = append(found, "update-err")
			case x.K == "invoke" && x.S == "reset" && isWatcher(x.A[0]):
				found = append(found, "reset-err")
			case x.K == "invoke" && x.S == "Error" && isLister(x.A[0]):
				found = append(found, "lister.Error")
			case x.K == "invoke" && x.S == "Error" && isWatcher(x.A[0]):
				found = append(found, "watcher.Error")
			case x.K == "invoke" && x.S == "Error" && isCache(x.A[0]):
				found = append(found, "cache.Error")
			}
		})
		if len(found) == 1 {
			return found[0]
		}
		if len(found) == 0 {
			return "UNRELATED:" + a.Key()
		}
		return strings.Join(found, "+")
	}
	ts := &tableSpec{
		Rule:   rule,
		Region: "one iteration of controller.run",
		Atoms: []atomSpec{{"arm", []string{"shutdown", "listerDone", "watcherDone", "cacheDone", "listResult", "watchEvent"}},
			{"errResult", boolDom}, {"errVer", boolDom}, {"errExtract", boolDom}, {"errSync", boolDom}, {"initialized", boolDom}, {"errReset", boolDom}, {"errUpdate", boolDom}},
		Extra: func(pa *Path) map[string][]string {
			a, _ := armOf(pa)
			return map[string][]string{"arm": {a}}
		},
		Lit: func(pa *Path, l Lit) litClass {
			t := l.T
			if t.K == "phi" && t.S == "initialized" {
				return litClass{Atom: "initialized", IfTrue: []string{"T"}, OK: true}
			}
			if x, ok := isNilTest(t); ok {
				switch {
				case resultField(pa, "err")(x):
					return litClass{Atom: "errResult", IfTrue: []string{"F"}, OK: true}
				case ex(x, "1") != nil && isVerCall(pa, ex(x, "1")):
					return litClass{Atom: "errVer", IfTrue: []string{"F"}, OK: true}
				case ex(x, "1") != nil && isExtCall(pa, ex(x, "1")):
					return litClass{Atom: "errExtract", IfTrue: []string{"F"}, OK: true}
				case ex(x, "1") != nil && ex(x, "1").K == "invoke" && ex(x, "1").S == "sync" && isCache(ex(x, "1").A[0]):
					return litClass{Atom: "errSync", IfTrue: []string{"F"}, OK: true}
				case ex(x, "1") != nil && ex(x, "1").K == "invoke" && ex(x, "1").S == "update" && isCache(ex(x, "1").A[0]):
					return litClass{Atom: "errUpdate", IfTrue: []string{"F"}, OK: true}
				case x.K == "invoke" && x.S == "reset" && isWatcher(x.A[0]):
					return litClass{Atom: "errReset", IfTrue: []string{"F"}, OK: true}
				}
			}
			return litClass{}
		},
		Outcome: func(pa *Path) ([]string, string) {
			var out []string
			arm, sel := armOf(pa)
			if strings.HasPrefix(arm, "?") {
				return nil, "unknown select arm " + arm
			}
			rv := recvOf(pa)
			idx := map[string]int{}
			// every iteration must re-read the watcher's channel and keep the list arm enabled
			hasEvents, hasResult := false, false
			for _, s := range sel.Sel {
				if s.Chan.K == "invoke" && s.Chan.S == "events" && isWatcher(s.Chan.A[0]) {
					for _, e := range pa.Effects {
						if e.Kind == "invoke" && e.Res == s.Chan {
							hasEvents = true
						}
					}
				}
				if s.Chan.K == "invoke" && s.Chan.S == "Result" && isLister(s.Chan.A[0]) {
					hasResult = true
				}
			}
			if !hasEvents {
				out = append(out, "MISSING:watcher.events()-re-read-in-this-iteration")
			}
			if !hasResult {
				out = append(out, "MISSING:lister.Result()-arm")
			}
			for k, e := range pa.Effects {
				tok := ""
				switch e.Kind {
				case "select":
					if !e.Blocking {
						return nil, "nested non-blocking select"
					}
				case "call":
					if e.IsPure() {
						continue
					}
					if e.Fn != nil && fnName(e.Fn) == "controller.distributeEvents" {
						a := sliceArg(e)
						src := "OTHER:" + a.Key()
						if x := ex(a, "0"); x != nil && x.K == "invoke" && isCache(x.A[0]) {
							src = x.S + "-events"
							// must be the result of the cache call of this iteration with the right input
						}
						tok = "distribute(" + src + ")"
						break
					}
					return nil, "unexpected call: " + e.String()
				case "invoke":
					switch {
					case e.IsPure():
					case e.Method == "events" && isWatcher(e.Recv), e.Method == "Result" && isLister(e.Recv):
					case e.Method == "Error" && (isLister(e.Recv) || isWatcher(e.Recv) || isCache(e.Recv)):
					case e.Method == "sync" && isCache(e.Recv):
						if x := ex(e.Args[0], "0"); x != nil && isExtCall(pa, x) {
							tok = "cache.sync(L)"
						} else {
							tok = "cache.sync(OTHER:" + e.Args[0].Key() + ")"
						}
					case e.Method == "update" && isCache(e.Recv):
						if sameTerm(e.Args[0], rv) && arm == "watchEvent" {
							tok = "cache.update(evt)"
						} else {
							tok = "cache.update(OTHER)"
						}
					case e.Method == "reset" && isWatcher(e.Recv):
						if x := ex(e.Args[0], "0"); x != nil && isVerCall(pa, x) {
							tok = "watcher.reset(V)"
						} else {
							tok = "watcher.reset(OTHER:" + e.Args[0].Key() + ")"
						}
					case e.Method == "ShutdownInitiated" && isLC(e.Recv):
						tok = "initiate(" + causeOf(pa, e.Args[0]) + ")"
					case e.Method == "ShutdownCompleted" && isLC(e.Recv):
					default:
						return nil, "unexpected call: " + e.String()
					}
				case "close":
					if e.Addr.IsRecvField("readych") {
						tok = "close(readych)"
					} else {
						return nil, "unexpected close: " + e.String()
					}
				case "recv":
					if r, _, ok := isInvoke(e.Addr, "Done"); ok {
						switch {
						case isCache(r):
							tok = "wait(cache.Done)"
						case isWatcher(r):
							tok = "wait(watcher.Done)"
						case isLister(r):
							tok = "wait(lister.Done)"
						}
					}
					if tok == "" {
						return nil, "unexpected receive: " + e.String()
					}
				case "rundefers", "defer":
				case "store":
					return nil, "unexpected store: " + e.String()
				default:
					return nil, "unexpected effect: " + e.String()
				}
				if tok != "" {
					out = append(out, tok)
					if _, dup := idx[tok]; !dup {
						idx[tok] = k
					}
				}
			}
			before := func(a, b string) {
				ia, oka := idx[a]
				ib, okb := idx[b]
				if oka && okb && ia > ib {
					out = append(out, "ORDER:"+b+"-before-"+a)
				}
			}
			before("cache.sync(L)", "close(readych)")
			before("cache.sync(L)", "distribute(sync-events)")
			before("cache.sync(L)", "watcher.reset(V)")
			before("cache.update(evt)", "distribute(update-events)")
			switch pa.End.Kind {
			case "stop":
				for name, v := range pa.PhiNext {
					if v.K == "phi" && v.S == name {
						continue
					}
					if name == "initialized" && v.Key() == "true" {
						out = append(out, "initialized'=T")
					} else {
						out = append(out, name+"'=OTHER:"+v.Key())
					}
				}
			case "return":
				out = append(out, "exit")
			default:
				return nil, "path ends in " + pa.End.Kind
			}
			return out, ""
		},
		Expected: func(v map[string]string) [][]string {
			T := func(a string) bool { return v[a] == "T" }
			exit := func(cause string, pre ...string) [][]string {
				return [][]string{append(pre, "initiate("+cause+")", "exit", "wait(cache.Done)", "wait(watcher.Done)", "wait(lister.Done)")}
			}
			switch v["arm"] {
			case "shutdown":
				return exit("request-error")
			case "listerDone":
				return exit("lister.Error")
			case "watcherDone":
				return exit("watcher.Error")
			case "cacheDone":
				return exit("cache.Error")
			case "listResult":
				switch {
				case T("errResult"):
					return exit("result.err")
				case T("errVer"):
					return exit("version-err")
				case T("errExtract"):
					return exit("extract-err")
				case T("errSync"):
					return exit("sync-err", "cache.sync(L)")
				}
				if !T("initialized") {
					if T("errReset") {
						return exit("reset-err", "cache.sync(L)", "close(readych)", "watcher.reset(V)")
					}
					return [][]string{{"cache.sync(L)", "close(readych)", "initialized'=T", "watcher.reset(V)"}}
				}
				if T("errReset") {
					return exit("reset-err", "cache.sync(L)", "distribute(sync-events)", "watcher.reset(V)")
				}
				return [][]string{{"cache.sync(L)", "distribute(sync-events)", "watcher.reset(V)"}}
			case "watchEvent":
				if T("errUpdate") {
					return exit("update-err", "cache.update(evt)")
				}
				return [][]string{{"cache.update(evt)", "distribute(update-events)"}}
			}
			return nil
		},
	}
	rows := c.runTable(ts, "controller.run", pos, paths)
	c.notes = append(c.notes, fmt.Sprintf("controller.run: %d iteration paths, %d abstract rows", len(paths), rows))
	// initial state
	pre := (&Walker{P: c.P, PhiNames: roles}).PreludeRegion(fn, loop)
	c.paths += len(pre)
	okk := len(pre) == 1 && pre[0].PhiNext["initialized"] != nil && pre[0].PhiNext["initialized"].Key() == "false"
	if okk {
		for _, e := range pre[0].Effects {
			if e.Kind != "defer" && !e.IsPure() {
				okk = false
			}
		}
	}
	c.check(okk, rule, "controller.run/initial-state", pos, "initialized=false, nothing before the loop", "controller.run does not start with initialized=false and an effect-free prelude")
}

// distributeEvents of the controller: single forward range, one send() per element.
func checkControllerDistribute(c *Ctx) {
	fn := c.mustFunc("", "controller.distributeEvents")
	if fn == nil {
		return
	}
	checkRangeSendAll(c, "T-SHAPE(distribute)", fn, func(e *Effect, elem *Term) (bool, string) {
		if e.Kind == "invoke" && e.Method == "send" {
			if !e.Recv.IsRecvField("subscription") {
				return false, "send on " + e.Recv.Key() + " instead of c.subscription"
			}
			if len(e.Args) != 1 || !sameTerm(e.Args[0], elem) {
				return false, "send() is not given the ranged element"
			}
			return true, ""
		}
		return false, ""
	})
}

// ---------- list plumbing shapes (C14 rule 1, C03 rule 2) ----------

func checkListHelpers(c *Ctx) {
	rule := "T-SHAPE(list-helpers)"
	// executeList
	if fn := c.mustFunc("", "_lister.executeList"); fn != nil {
		pos := c.P.fnPos(fn)
		paths := (&Walker{P: c.P}).FuncRegion(fn)
		c.paths += len(paths)
		var sawErr, sawType, sawOK bool
		bad := ""
		for _, pa := range paths {
			if pa.End.Kind != "return" || len(pa.End.Results) != 1 || pa.End.Results[0].K != "struct" {
				bad = "a path does not return a listResult value"
				continue
			}
			res := pa.End.Results[0]
			var listCall *Term
			for _, e := range pa.Effects {
				if e.Kind == "invoke" && e.Method == "List" && e.Recv.IsRecvField("client") {
					listCall = e.Res
					// ListOptions must be the zero value (no ResourceVersion: a list served from the watch cache is not the server's current state)
					if len(e.Args) != 2 || !(e.Args[1].K == "const" && strings.HasPrefix(e.Args[1].S, "zero:")) && !(e.Args[1].K == "struct" && allZero(e.Args[1])) {
						bad = "client.List is called with non-empty ListOptions: " + e.Args[1].Key()
					}
					if !(e.Args[0].K == "param") {
						bad = "client.List is not given the caller's context"
					}
				}
			}
			if listCall == nil {
				bad = "a path does not call client.List"
				continue
			}
			var errNil, errKnown, typeOK, typeKnown bool
			for _, l := range pa.Lits {
				if x, ok := isNilTest(l.T); ok && x.K == "extract" && x.S == "1" && sameTerm(x.A[0], listCall) {
					errNil, errKnown = l.Val, true
				}
				if l.T.K == "assertok" && strings.HasSuffix(l.T.S, "meta.List") {
					typeOK, typeKnown = l.Val, true
				}
			}
			lst, er := res.A[0], res.A[1]
			switch {
			case errKnown && !errNil:
				sawErr = true
				if !lst.IsNil() || er.IsNil() || !termContains(er, func(x *Term) bool { return x.K == "extract" && x.S == "1" && sameTerm(x.A[0], listCall) }) {
					bad = "on client error the result is not {nil, error derived from the client's error}"
				}
			case errKnown && errNil && typeKnown && !typeOK:
				sawType = true
				if !lst.IsNil() || !termContains(er, func(x *Term) bool {
					return x.K == "load" && strings.Contains(x.Key(), "errInvalidType") || x.K == "global" && strings.Contains(x.S, "errInvalidType")
				}) {
					bad = "a non-list object does not yield errInvalidType: " + er.Key()
				}
			case errKnown && errNil && typeKnown && typeOK:
				sawOK = true
				if !(lst.K == "extract" && lst.S == "0" && sameTerm(lst.A[0], listCall)) || !er.IsNil() {
					bad = "on success the result is not {the listed object, nil}"
				}
			default:
				// log-only branches (err != context.Canceled) do not change the result
			}
		}
		c.check(bad == "" && sawErr && sawType && sawOK, rule, "_lister.executeList/error|non-list|ok", pos, "client error→wrapped error; not a meta.List→errInvalidType; else {list,nil}", "executeList: "+bad+fmt.Sprintf(" (saw err=%v type=%v ok=%v)", sawErr, sawType, sawOK))
	}
	// listResourceVersion
	if fn := c.mustFunc("", "listResourceVersion"); fn != nil {
		pos := c.P.fnPos(fn)
		paths := (&Walker{P: c.P}).FuncRegion(fn)
		c.paths += len(paths)
		bad := ""
		n := 0
		for _, pa := range paths {
			if pa.End.Kind != "return" || len(pa.End.Results) != 2 {
				bad = "shape"
				continue
			}
			var acc *Term
			for _, e := range pa.Effects {
				if e.Kind == "call" && e.Fn != nil && strings.HasSuffix(fnName(e.Fn), "meta.ListAccessor") && len(e.Args) == 1 && e.Args[0].K == "param" {
					acc = e.Res
				}
			}
			if acc == nil {
				bad = "does not call meta.ListAccessor on its argument"
				continue
			}
			for _, l := range pa.Lits {
				if x, ok := isNilTest(l.T); ok && x.K == "extract" && x.S == "1" && sameTerm(x.A[0], acc) {
					n++
					r0, r1 := pa.End.Results[0], pa.End.Results[1]
					if l.Val {
						rv, _, ok := isInvoke(r0, "GetResourceVersion")
						if !ok || !(rv.K == "extract" && rv.S == "0" && sameTerm(rv.A[0], acc)) || !r1.IsNil() {
							bad = "success path does not return accessor.GetResourceVersion(), nil"
						}
					} else if !sameTerm(r1, x) {
						bad = "accessor error is not returned"
					}
				}
			}
		}
		c.check(bad == "" && n == 2, rule, "listResourceVersion/accessor-error-or-version", pos, "", "listResourceVersion: "+bad)
	}
	// extractList: error from meta.ExtractList propagated; element not a metav1.Object → errInvalidType; else all elements in order
	if fn := c.mustFunc("", "extractList"); fn != nil {
		pos := c.P.fnPos(fn)
		bad := ""
		loops := findLoops(fn)
		if len(loops) != 1 {
			bad = "expected one loop over the extracted objects"
		} else {
			w := &Walker{P: c.P}
			paths := w.LoopRegion(fn, loops[0])
			c.paths += len(paths)
			var sawAppend, sawBad bool
			for _, pa := range paths {
				var okAssert, known bool
				for _, l := range pa.Lits {
					if l.T.K == "assertok" && strings.HasSuffix(l.T.S, "v1.Object") {
						okAssert, known = l.Val, true
					}
				}
				if !known {
					continue
				}
				if okAssert {
					apps := 0
					for _, e := range pa.Effects {
						if e.Kind == "append" {
							apps++
							if !(len(e.Args) == 2 && e.Args[1].K == "typeassert") {
								bad = "appends something other than the asserted element"
							}
						}
						// or: result[i] = asserted element, for the loop's own index i
						if e.Kind == "store" && e.Addr.K == "iaddr" && e.Val.K == "typeassert" {
							apps++
							src := e.Val.A[0]
							if !(src.K == "index" && sameTerm(src.A[1], e.Addr.A[1])) {
								bad = "stores the element at an index other than its own"
							}
						}
					}
					if apps != 1 || pa.End.Kind != "stop" || pa.End.Block != loops[0].Header {
						bad = "accepted element is not appended exactly once and the loop continued"
					}
					sawAppend = true
				} else {
					sawBad = true
					if pa.End.Kind == "stop" && pa.End.Block == loops[0].Header {
						bad = "an element that is not a metav1.Object is skipped instead of failing the list"
					}
				}
			}
			if !sawAppend || !sawBad {
				bad = "loop does not branch on a comma-ok assertion to metav1.Object"
			}
			// whole-function returns: error paths return (nil, non-nil)
			for _, b := range fn.Blocks {
				if r, ok := b.Instrs[len(b.Instrs)-1].(*ssa.Return); ok && len(r.Results) == 2 {
					if c0, ok := r.Results[0].(*ssa.Const); ok && c0.Value == nil {
						if c1, ok := r.Results[1].(*ssa.Const); ok && c1.Value == nil {
							bad = "returns (nil, nil)"
						}
					}
				}
			}
		}
		c.check(bad == "", rule, "extractList/all-elements-or-errInvalidType", pos, "", "extractList: "+bad)
	}
}

func allZero(t *Term) bool {
	for _, a := range t.A {
		if a == nil {
			continue
		}
		if a.K == "struct" {
			if !allZero(a) {
				return false
			}
			continue
		}
		if !(a.K == "const" && (strings.HasPrefix(a.S, "zero:") || a.S == "nil" || a.S == "false" || a.S == "0" || a.S == `""`)) {
			return false
		}
	}
	return true
}

// checkControllerAPI: Close requests shutdown with nil; Error/Done/Ready/Cache return own fields.
func checkControllerAPI(c *Ctx) {
	rule := "T-FLOW(controller-api)"
	if fn := c.mustFunc("", "controller.Close"); fn != nil {
		paths := (&Walker{P: c.P}).FuncRegion(fn)
		c.paths += len(paths)
		ok := len(paths) == 1
		n := 0
		if ok {
			for _, e := range paths[0].Effects {
				if e.Kind == "invoke" && (e.Method == "Shutdown" || e.Method == "ShutdownAsync") && e.Recv.IsRecvField("lc") {
					n++
					if !e.Args[0].IsNil() {
						ok = false
					}
				} else if !e.IsPure() && e.Kind != "rundefers" {
					ok = false
				}
			}
		}
		c.check(ok && n == 1, rule, "controller.Close/requests-shutdown(nil)", c.P.fnPos(fn), "", "controller.Close does not request shutdown of its own lifecycle with a nil error (a deliberate close must report no failure)")
	}
	for _, acc := range [][3]string{{"controller.Error", "lc", "Error"}, {"controller.Done", "lc", "Done"}} {
		if fn := c.mustFunc("", acc[0]); fn != nil {
			paths := (&Walker{P: c.P}).FuncRegion(fn)
			c.paths += len(paths)
			ok := len(paths) == 1 && len(paths[0].End.Results) == 1
			if ok {
				r, _, isInv := isInvoke(paths[0].End.Results[0], acc[2])
				ok = isInv && r.IsRecvField(acc[1])
			}
			c.check(ok, rule, acc[0]+"/returns-lc."+acc[2], c.P.fnPos(fn), "", acc[0]+" does not return c.lc."+acc[2]+"()")
		}
	}
	for _, acc := range [][2]string{{"controller.Ready", "readych"}, {"controller.Cache", "cache"}} {
		if fn := c.mustFunc("", acc[0]); fn != nil {
			paths := (&Walker{P: c.P}).FuncRegion(fn)
			c.paths += len(paths)
			ok := len(paths) == 1 && len(paths[0].End.Results) == 1 && paths[0].End.Results[0].IsRecvField(acc[1])
			c.check(ok, rule, acc[0]+"/returns-"+acc[1], c.P.fnPos(fn), "", acc[0]+" does not return c."+acc[1])
		}
	}
}

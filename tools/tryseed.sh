#!/bin/bash
# usage: tryseed.sh <patch.diff> <props-comma-list>   -- applies the patch to a scratch copy of /repo and runs kcheck on it
set -u
patch=$1; props=${2:-all}
export GOFLAGS=-mod=mod GOPROXY=off GOSUMDB=off GOTOOLCHAIN=local GOWORK=off
d=$(mktemp -d /tmp/kscratch.XXXXXX)
(cd /repo && git ls-files | rsync -a --files-from=- . $d/)
if ! (cd $d && git init -q . && git apply --whitespace=nowarn "$patch"); then echo "PATCH DOES NOT APPLY"; rm -rf $d; exit 3; fi
${KCHECK:-/verif/bin/kcheck} -repo $d -prop $props -evidence $d/.ev -known /verif/known_findings.json 2>&1 | grep -E "^VIOLATION|^  [^ r]|^C[0-9]+ tier|KNOWN" | sed "s#$d/##g" | cut -c1-400
rc=${PIPESTATUS[0]}
rm -rf $d
exit $rc

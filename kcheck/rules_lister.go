package main

// _lister.run and _ticker.run phase tables, period flow (C13).

import (
	"fmt"
	"strings"

	"golang.org/x/tools/go/ssa"
)

func checkListerTable(c *Ctx) {
	fn := c.mustFunc("", "_lister.run")
	if fn == nil {
		return
	}
	rule := "T-TABLE(_lister.run)"
	pos := c.P.fnPos(fn)
	loop := mainLoop(fn)
	if loop == nil {
		c.undecided(rule, "_lister.run/shape", pos, "no actor loop found")
		return
	}
	roles := phiRoles(loop.Header, map[string]func(*ssa.Phi) bool{"tickch": phiTypeIs("<-chan int"), "runch": phiTypeIs("<-chan listResult"), "resultch": phiTypeIs("chan listResult"), "result": phiTypeIs("listResult"), "donech": phiTypeIs("<-chan struct{}")})
	w := &Walker{P: c.P, Inline: autoInline(c.P, fn, 12), PhiNames: roles}
	paths := w.IterRegion(fn, loop)
	isPhi := func(t *Term, n string) bool { return t != nil && t.K == "phi" && t.S == n }
	isTicker := func(t *Term) bool {
		a, ok := isCall(t, "newTicker")
		return ok && len(a) == 2 && a[0].IsRecvField("period")
	}
	isListCall := func(t *Term) bool { return t != nil && t.K == "call" && t.S == "_lister.list" }
	armOf := func(pa *Path) (string, *Effect) {
		for _, e := range pa.Effects {
			if e.Kind == "select" && e.Blocking {
				if e.Arm < 0 {
					return "?", e
				}
				s := e.Sel[e.Arm]
				switch {
				case s.Send == nil && isPhi(s.Chan, "tickch"):
					return "tick", e
				case s.Send == nil && isPhi(s.Chan, "runch"):
					return "listDone", e
				case s.Send != nil && isPhi(s.Chan, "resultch") && isPhi(s.Send, "result"):
					return "deliver", e
				case s.Send == nil && s.Chan.K == "invoke" && s.Chan.S == "ShutdownRequest" && s.Chan.A[0].IsRecvField("lc"):
					return "shutdown", e
				}
				return "?" + armLabel(e), e
			}
		}
		return "?", nil
	}
	ts := &tableSpec{
		Rule:   rule,
		Region: "one iteration of _lister.run",
		Atoms:  []atomSpec{{"arm", []string{"tick", "listDone", "deliver", "shutdown"}}},
		Extra: func(pa *Path) map[string][]string {
			a, _ := armOf(pa)
			return map[string][]string{"arm": {a}}
		},
		Lit: func(pa *Path, l Lit) litClass { return litClass{} },
		Outcome: func(pa *Path) ([]string, string) {
			arm, sel := armOf(pa)
			if strings.HasPrefix(arm, "?") {
				return nil, "unknown select arm " + arm
			}
			rv := selRecvTerm(sel)
			var out []string
			var listRes *Term
			for _, e := range pa.Effects {
				switch e.Kind {
				case "select":
					if !e.Blocking {
						return nil, "nested select"
					}
				case "call":
					if e.IsPure() {
						continue
					}
					if isListCall(e.Res) {
						listRes = e.Res
						out = append(out, "l.list()")
						continue
					}
					return nil, "unexpected call: " + e.String()
				case "invoke":
					switch {
					case e.IsPure():
					case isTicker(e.Recv) && e.Method == "Reset":
						out = append(out, "ticker.Reset")
					case isTicker(e.Recv) && e.Method == "Next":
					case isTicker(e.Recv) && e.Method == "Stop":
						out = append(out, "ticker.Stop")
					case e.Method == "ShutdownInitiated" && e.Recv.IsRecvField("lc"):
						if sameTerm(e.Args[0], rv) && arm == "shutdown" {
							out = append(out, "initiate(request-error)")
						} else {
							out = append(out, "initiate(OTHER)")
						}
					case e.Method == "ShutdownCompleted":
					default:
						return nil, "unexpected call: " + e.String()
					}
				case "recv":
					switch {
					case e.Addr.K == "invoke" && e.Addr.S == "Done" && isTicker(e.Addr.A[0]):
						out = append(out, "wait(ticker.Done)")
					case isPhi(e.Addr, "donech"):
						out = append(out, "wait(list-goroutine donech)")
					default:
						return nil, "unexpected receive: " + e.String()
					}
				case "rundefers", "defer":
				default:
					return nil, "unexpected effect: " + e.String()
				}
			}
			switch pa.End.Kind {
			case "stop":
				for _, name := range sortedKeys(pa.PhiNext) {
					v := pa.PhiNext[name]
					if isPhi(v, name) {
						continue
					}
					switch {
					case v.IsNil():
						out = append(out, name+"':=nil")
					case name == "tickch" && v.K == "invoke" && v.S == "Next" && isTicker(v.A[0]):
						out = append(out, "tickch':=ticker.Next()")
					case name == "resultch" && v.IsRecvField("resultch"):
						out = append(out, "resultch':=l.resultch")
					case name == "result" && sameTerm(v, rv) && arm == "listDone":
						out = append(out, "result':=received")
					case name == "runch" && v.K == "extract" && v.S == "0" && listRes != nil && sameTerm(v.A[0], listRes):
						out = append(out, "runch':=list.runch")
					case name == "donech" && v.K == "extract" && v.S == "1" && listRes != nil && sameTerm(v.A[0], listRes):
						out = append(out, "donech':=list.donech")
					default:
						out = append(out, name+"':=OTHER:"+v.Key())
					}
				}
			case "return":
				out = append(out, "exit")
			default:
				return nil, "path ends in " + pa.End.Kind
			}
			return out, ""
		},
		Expected: func(v map[string]string) [][]string {
			switch v["arm"] {
			case "tick":
				return [][]string{{"l.list()", "runch':=list.runch", "donech':=list.donech", "tickch':=nil"}}
			case "listDone":
				return [][]string{{"result':=received", "resultch':=l.resultch", "runch':=nil"}}
			case "deliver":
				return [][]string{{"ticker.Reset", "resultch':=nil", "tickch':=ticker.Next()"}}
			case "shutdown":
				return [][]string{{"initiate(request-error)", "exit", "ticker.Stop", "wait(ticker.Done)", "wait(list-goroutine donech)"}}
			}
			return nil
		},
	}
	rows := c.runTable(ts, "_lister.run", pos, paths)
	c.paths += 0
	c.notes = append(c.notes, fmt.Sprintf("_lister.run: %d iteration paths, %d abstract rows", len(paths), rows))
	// initial phase: only runch enabled (first list running)
	pre := (&Walker{P: c.P, PhiNames: roles}).PreludeRegion(fn, loop)
	c.paths += len(pre)
	okk, detail := len(pre) == 1, ""
	if okk {
		nx := pre[0].PhiNext
		if v := nx["runch"]; v == nil || !(v.K == "extract" && v.S == "0" && isListCall(v.A[0])) {
			okk, detail = false, "the first list is not started before the loop"
		}
		if v := nx["donech"]; v == nil || !(v.K == "extract" && v.S == "1" && isListCall(v.A[0])) {
			okk, detail = false, "donech is not the first list's done channel"
		}
		for _, n := range []string{"tickch", "resultch"} {
			if v := nx[n]; v == nil || !v.IsNil() {
				okk, detail = false, n+" is enabled initially: more than one phase channel armed"
			}
		}
		nt := 0
		for _, e := range pre[0].Effects {
			if e.Kind == "call" && isTicker(e.Res) {
				nt++
				fz, _ := c.P.constLit("", "defaultRefreshFuzz")
				_ = fz
			}
		}
		if nt != 1 {
			okk, detail = false, "the ticker is not created exactly once from l.period"
		}
	} else {
		detail = "prelude is not straight-line"
	}
	c.check(okk, rule, "_lister.run/initial-phase", pos, "only runch armed; ticker from l.period", "_lister.run initial phase: "+detail)
}

// checkListGoroutines: list() = cap-1 result channel + done channel + ctx
// cancelled on shutdown or completion; worker sends executeList(ctx) once and closes donech.
func checkListGoroutines(c *Ctx) {
	rule := "T-SHAPE(_lister.list)"
	fn := c.mustFunc("", "_lister.list")
	if fn == nil {
		return
	}
	pos := c.P.fnPos(fn)
	paths := (&Walker{P: c.P}).FuncRegion(fn)
	c.paths += len(paths)
	okk, detail := len(paths) == 1, ""
	if okk {
		pa := paths[0]
		var runch, donech, wc *Term
		var gos []*Effect
		for _, e := range pa.Effects {
			if e.Kind == "call" && e.Fn != nil && strings.HasSuffix(fnName(e.Fn), "context.WithCancel") {
				wc = e.Res
				if !e.Args[0].IsRecvField("ctx") {
					okk, detail = false, "list context is not derived from l.ctx"
				}
			}
			if e.Kind == "go" {
				gos = append(gos, e)
			}
		}
		r := pa.End.Results
		if len(r) == 2 {
			runch, donech = r[0], r[1]
		}
		if runch == nil || runch.K != "makechan" || runch.A[0].Key() == "0" {
			okk, detail = false, "the result channel returned is not a fresh buffered channel (the worker could block forever when nobody collects the result)"
		}
		if donech == nil || donech.K != "makechan" {
			okk, detail = false, "the done channel returned is not a fresh channel"
		}
		if wc == nil {
			okk, detail = false, "no cancellable context for the list call"
		}
		if len(gos) != 2 {
			okk, detail = false, fmt.Sprintf("expected 2 goroutines (canceller, worker), found %d", len(gos))
		}
	}
	c.check(okk, rule, "_lister.list/channels-and-context", pos, "", "_lister.list: "+detail)
	// the two goroutines are identified by what they do (not by closure numbering): the worker
	// is the one that calls executeList, the canceller the other one
	bodies := goBodiesOf(fn)
	worker := pickSub(bodies, func(s *subFunc) bool { return len(callsNamed(s.Fn, "_lister.executeList")) > 0 })
	canceller := pickSub(bodies, func(s *subFunc) bool { return len(callsNamed(s.Fn, "_lister.executeList")) == 0 })
	// canceller: defer cancel(); select { <-ShuttingDown ; <-donech }
	if canceller == nil {
		c.fail(rule, "_lister.list/canceller/cancels-on-shutdown-or-completion", pos, "no canceller goroutine found in _lister.list")
	} else {
		cl := canceller.Fn
		c.useFn(cl)
		ps := (&Walker{P: c.P}).FuncRegion(cl)
		c.paths += len(ps)
		ok := len(ps) == 2
		for _, pa := range ps {
			hasDefer, hasSel := false, false
			for _, e := range pa.Effects {
				if e.Kind == "defer" && e.Mode == "dyncall" {
					hasDefer = true
				}
				if e.Kind == "select" && e.Blocking && len(e.Sel) == 2 {
					sd := false
					for _, s := range e.Sel {
						if s.Chan.K == "invoke" && s.Chan.S == "ShuttingDown" {
							sd = true
						}
					}
					hasSel = sd
				}
			}
			if !hasDefer || !hasSel {
				ok = false
			}
		}
		// the function it defers is the cancel of list()'s own WithCancel
		if ok {
			ok = false
			for _, b := range cl.Blocks {
				for _, in := range b.Instrs {
					if d, okd := in.(*ssa.Defer); okd {
						if o := canceller.outer(d.Call.Value); o != nil && isWithCancelPart(storedValue(o), 1) {
							ok = true
						}
					}
				}
			}
		}
		c.check(ok, rule, "_lister.list/canceller/cancels-on-shutdown-or-completion", c.P.fnPos(cl), "", "the list canceller does not cancel the list context when the lister is shutting down or the list completed")
	}
	// worker: defer close(donech); runch <- l.executeList(ctx)
	if worker == nil {
		c.fail(rule, "_lister.list/worker/sends-result-then-closes-donech", pos, "no single worker goroutine calling executeList found in _lister.list")
	} else {
		cl := worker.Fn
		c.useFn(cl)
		ps := (&Walker{P: c.P}).FuncRegion(cl)
		c.paths += len(ps)
		ok := len(ps) == 1
		if ok {
			var hasClose, hasSend bool
			for _, e := range ps[0].Effects {
				if e.Kind == "defer" && e.Mode == "builtin" && e.Method == "close" {
					hasClose = true
				}
				if e.Kind == "send" {
					if a, okc := isCall(e.Val, "_lister.executeList"); okc && len(a) == 2 {
						hasSend = true
					}
				}
			}
			ok = hasClose && hasSend
		}
		c.check(ok, rule, "_lister.list/worker/sends-result-then-closes-donech", c.P.fnPos(cl), "", "the list worker does not deliver executeList(ctx) once and close donech on exit")
	}
}

// isWithCancelPart: v is component idx (0 ctx, 1 cancel) of a context.WithCancel call.
func isWithCancelPart(v ssa.Value, idx int) bool {
	ex, ok := v.(*ssa.Extract)
	if !ok || ex.Index != idx {
		return false
	}
	call, ok := ex.Tuple.(*ssa.Call)
	if !ok {
		return false
	}
	g := call.Call.StaticCallee()
	return g != nil && g.Name() == "WithCancel" && g.Pkg != nil && g.Pkg.Pkg.Path() == "context"
}

func checkTickerTable(c *Ctx) {
	fn := c.mustFunc("", "_ticker.run")
	if fn == nil {
		return
	}
	rule := "T-TABLE(_ticker.run)"
	pos := c.P.fnPos(fn)
	loop := mainLoop(fn)
	if loop == nil {
		c.undecided(rule, "_ticker.run/shape", pos, "no actor loop found")
		return
	}
	roles := phiRoles(loop.Header, map[string]func(*ssa.Phi) bool{"nextch": phiTypeIs("chan int"), "count": phiTypeIs("int")})
	w := &Walker{P: c.P, Inline: autoInline(c.P, fn, 12), PhiNames: roles}
	if np := c.P.Func("", "_ticker.nextPeriod"); np != nil {
		delete(w.Inline, np) // recognised by name; its body is checked by T-FLOW(period)
	}
	paths := w.IterRegion(fn, loop)
	isPhi := func(t *Term, n string) bool { return t != nil && t.K == "phi" && t.S == n }
	isPeriodCall := func(t *Term) bool { return t != nil && t.K == "call" && t.S == "_ticker.nextPeriod" }
	isTimer := func(t *Term) bool {
		return t != nil && t.K == "call" && strings.HasSuffix(t.S, "time.NewTimer") && len(t.A) == 1 && isPeriodCall(t.A[0])
	}
	isTimerC := func(t *Term) bool { return t.IsField("C") && isTimer(t.A[0]) }
	armOf := func(pa *Path) (string, *Effect) {
		for _, e := range pa.Effects {
			if e.Kind == "select" && e.Blocking {
				if e.Arm < 0 {
					return "?", e
				}
				s := e.Sel[e.Arm]
				switch {
				case s.Send == nil && s.Chan.IsRecvField("resetch"):
					return "reset", e
				case s.Send == nil && s.Chan.IsRecvField("stopch"):
					return "stop", e
				case s.Send == nil && isTimerC(s.Chan):
					return "timerFired", e
				case s.Send != nil && isPhi(s.Chan, "nextch"):
					return "tickTaken", e
				}
				return "?" + armLabel(e), e
			}
		}
		return "?", nil
	}
	ts := &tableSpec{
		Rule:   rule,
		Region: "one iteration of _ticker.run",
		Atoms:  []atomSpec{{"arm", []string{"reset", "stop", "timerFired", "tickTaken"}}, {"stopped", boolDom}, {"pending", boolDom}},
		Extra: func(pa *Path) map[string][]string {
			a, _ := armOf(pa)
			return map[string][]string{"arm": {a}}
		},
		Lit: func(pa *Path, l Lit) litClass {
			if l.T.K == "call" && strings.HasSuffix(l.T.S, "time.Timer.Stop") && isTimer(l.T.A[0]) {
				return litClass{Atom: "stopped", IfTrue: []string{"T"}, OK: true}
			}
			// pending ⇔ nextch != nil at the top of the iteration: a tick waits to be picked up
			if x, ok := isNilTest(l.T); ok && isPhi(x, "nextch") {
				return litClass{Atom: "pending", IfTrue: []string{"F"}, OK: true}
			}
			return litClass{}
		},
		Outcome: func(pa *Path) ([]string, string) {
			arm, _ := armOf(pa)
			if strings.HasPrefix(arm, "?") {
				return nil, "unknown select arm " + arm
			}
			var out []string
			rearmed := false // a Stop or drain after the re-arming Reset would disarm the new period
			for _, e := range pa.Effects {
				switch e.Kind {
				case "select":
					if e.Blocking {
						if e.Depth == 0 && len(out) == 0 {
							continue
						}
					}
					if !e.Blocking && len(e.Sel) == 1 && e.Sel[0].Send == nil && isTimerC(e.Sel[0].Chan) {
						if rearmed {
							out = append(out, "drain(timer.C)-AFTER-Reset")
							continue
						}
						out = append(out, "drain(timer.C)[nonblocking]")
						continue
					}
					if e.Blocking && e == selectsOf(pa)[0] {
						continue
					}
					out = append(out, "select(OTHER)")
				case "recv":
					out = append(out, "BLOCKING-receive("+e.Addr.Key()+")")
				case "send":
					out = append(out, "BLOCKING-send("+e.Addr.Key()+")")
				case "call":
					name := ""
					if e.Fn != nil {
						name = fnName(e.Fn)
					}
					switch {
					case name == "_ticker.nextPeriod":
					case strings.HasSuffix(name, "time.Timer.Stop") && isTimer(e.Args[0]):
						if rearmed {
							out = append(out, "timer.Stop-AFTER-Reset")
						} else {
							out = append(out, "timer.Stop")
						}
					case strings.HasSuffix(name, "time.Timer.Reset") && isTimer(e.Args[0]):
						rearmed = true
						if isPeriodCall(e.Args[1]) {
							out = append(out, "timer.Reset(nextPeriod)")
						} else {
							out = append(out, "timer.Reset(OTHER)")
						}
					case e.IsPure():
					default:
						return nil, "unexpected call: " + e.String()
					}
				case "rundefers", "defer":
				default:
					return nil, "unexpected effect: " + e.String()
				}
			}
			switch pa.End.Kind {
			case "stop":
				for _, name := range sortedKeys(pa.PhiNext) {
					v := pa.PhiNext[name]
					if isPhi(v, name) || name == "count" {
						continue
					}
					switch {
					case name == "nextch" && v.IsNil():
						out = append(out, "nextch':=nil")
					case name == "nextch" && v.IsRecvField("nextch"):
						out = append(out, "nextch':=t.nextch")
					default:
						out = append(out, name+"':=OTHER:"+v.Key())
					}
				}
			case "return":
				out = append(out, "exit")
			default:
				return nil, "path ends in " + pa.End.Kind
			}
			return out, ""
		},
		Expected: func(v map[string]string) [][]string {
			switch v["arm"] {
			case "reset":
				full := []string{"timer.Stop", "drain(timer.C)[nonblocking]", "timer.Reset(nextPeriod)", "nextch':=nil"}
				if v["stopped"] == "T" {
					full = []string{"timer.Stop", "timer.Reset(nextPeriod)", "nextch':=nil"}
				}
				alts := [][]string{full}
				if v["pending"] == "T" {
					// nextch is set only by the timerFired row, which has received the tick, and every
					// row that re-arms the timer clears it (this table): with a tick pending the timer
					// has fired and timer.C is empty, so Stop and the drain are no-ops and may be left out
					alts = append(alts, []string{"timer.Reset(nextPeriod)", "nextch':=nil"})
				} else {
					// nextch is nil already: leaving it alone is the same as clearing it
					alts = append(alts, full[:len(full)-1])
				}
				return alts
			case "stop":
				return [][]string{{"timer.Stop", "exit"}, {"exit"}}
			case "timerFired":
				return [][]string{{"timer.Stop", "nextch':=t.nextch"}, {"nextch':=t.nextch"}}
			case "tickTaken":
				// stopping/draining the (already fired) timer before re-arming it is harmless
				base := []string{"timer.Reset(nextPeriod)", "nextch':=nil"}
				return [][]string{base, append(append([]string{}, base...), "timer.Stop"), append(append([]string{}, base...), "timer.Stop", "drain(timer.C)[nonblocking]")}
			}
			return nil
		},
	}
	rows := c.runTable(ts, "_ticker.run", pos, paths)
	c.notes = append(c.notes, fmt.Sprintf("_ticker.run: %d iteration paths, %d abstract rows", len(paths), rows))
	// initial: timer armed with nextPeriod, nextch nil, donech closed on exit (defer)
	pre := (&Walker{P: c.P, PhiNames: roles}).PreludeRegion(fn, loop)
	c.paths += len(pre)
	okk, detail := len(pre) == 1, ""
	if okk {
		if v := pre[0].PhiNext["nextch"]; v == nil || !v.IsNil() {
			okk, detail = false, "nextch does not start disabled"
		}
		hasTimer, hasClose := false, false
		for _, e := range pre[0].Effects {
			if e.Kind == "call" && isTimer(e.Res) {
				hasTimer = true
			}
			if e.Kind == "defer" && e.Method == "close" && len(e.Args) == 1 && e.Args[0].IsRecvField("donech") {
				hasClose = true
			}
		}
		if !hasTimer {
			okk, detail = false, "timer is not armed with nextPeriod() before the loop"
		}
		if !hasClose {
			okk, detail = false, "donech is not closed on exit"
		}
	}
	c.check(okk, rule, "_ticker.run/initial-state", pos, "timer armed, nextch nil, defer close(donech)", "_ticker.run initial state: "+detail)
}

// checkPeriodFlow: RefreshPeriod → listerBuilder.period → newLister → _lister.period → newTicker → _ticker.period → nextPeriod
func checkPeriodFlow(c *Ctx) {
	rule := "T-FLOW(period)"
	type fieldInit struct{ fn, field, param string }
	storeOfParam := func(fnName_, field string, paramIdx int) {
		fn := c.mustFunc("", fnName_)
		if fn == nil {
			return
		}
		paths := (&Walker{P: c.P}).FuncRegion(fn)
		c.paths += len(paths)
		ok := len(paths) >= 1
		for _, pa := range paths {
			found := false
			for _, e := range pa.Effects {
				if e.Kind == "store" && e.Addr.K == "faddr" && e.Addr.S == field && e.Val.K == "param" && paramIdx < len(fn.Params) && e.Val.S == fn.Params[paramIdx].Name() {
					found = true
				}
			}
			if !found {
				ok = false
			}
		}
		c.check(ok, rule, fnName_+"/"+field+"=argument", c.P.fnPos(fn), "", fnName_+" does not store its argument in ."+field)
	}
	storeOfParam("listerBuilder.RefreshPeriod", "period", 1)
	storeOfParam("newLister", "period", 3)
	storeOfParam("newTicker", "period", 0)
	storeOfParam("newTicker", "fuzz", 1)
	// builder.Create passes b.lb.period to newLister
	if fn := c.mustFunc("", "builder.Create"); fn != nil {
		ok := false
		for _, pa := range pathsOf(c, fn) {
			for _, e := range pa.Effects {
				if e.Kind == "call" && e.Fn != nil && fnName(e.Fn) == "newLister" && len(e.Args) > 3 {
					if p, okp := e.Args[3].FieldPath(); okp && strings.HasSuffix(p, ".lb.period") {
						ok = true
					}
				}
			}
		}
		c.check(ok, rule, "builder.Create/newLister(period=b.lb.period)", c.P.fnPos(fn), "", "builder.Create does not pass the configured refresh period to newLister")
	}
	// newListerBuilder default
	if fn := c.mustFunc("", "newListerBuilder"); fn != nil {
		paths := (&Walker{P: c.P}).FuncRegion(fn)
		def, _ := c.P.constLit("", "defaultRefreshPeriod")
		ok := false
		for _, pa := range paths {
			for _, e := range pa.Effects {
				if e.Kind == "store" && e.Addr.K == "faddr" && e.Addr.S == "period" && e.Val.K == "const" && e.Val.S == def {
					ok = true
				}
			}
		}
		c.check(ok, rule, "newListerBuilder/default-period", c.P.fnPos(fn), "", "default refresh period is not defaultRefreshPeriod")
	}
	// nextPeriod depends on t.period and t.fuzz, has no side effects besides rand
	if fn := c.mustFunc("", "_ticker.nextPeriod"); fn != nil {
		paths := (&Walker{P: c.P}).FuncRegion(fn)
		ok := len(paths) == 1 && len(paths[0].End.Results) == 1
		if ok {
			r := paths[0].End.Results[0]
			hasP := termContains(r, func(x *Term) bool { return x.IsRecvField("period") })
			hasF := termContains(r, func(x *Term) bool { return x.IsRecvField("fuzz") })
			ok = hasP && hasF
			for _, e := range paths[0].Effects {
				if e.Kind == "store" || e.Kind == "send" || e.Kind == "go" {
					ok = false
				}
			}
		}
		c.check(ok, rule, "_ticker.nextPeriod/function-of-period-and-fuzz", c.P.fnPos(fn), "", "nextPeriod is not a side-effect-free function of t.period and t.fuzz")
	}
}

package main

// Obligations, known findings, evidence files, exit codes.

import (
	"encoding/json"
	"fmt"
	"os"
	"path/filepath"
	"runtime/debug"
	"sort"
	"strconv"
	"strings"
	"time"

	"golang.org/x/tools/go/ssa"
)

type ssaFunction = ssa.Function

type Obligation struct {
	Key      string `json:"key"`  // rule/function/construct — never a line number
	Rule     string `json:"rule"` // rule id, e.g. T-TABLE(doUpdate)
	Pos      string `json:"pos"`
	Verdict  string `json:"verdict"` // ok | violation | undecided | known
	Detail   string `json:"detail,omitempty"`
	PathDump string `json:"path,omitempty"`
}

type Ctx struct {
	P      *Prog
	Prop   string
	Tier   string
	Obs    []*Obligation
	seen   map[string]*Obligation
	funcs  map[string]bool
	paths  int
	sites  int
	notes  []string
	floors []floor
}

type floor struct {
	rule string
	min  int
	why  string
}

func newCtx(p *Prog, prop, tier string) *Ctx {
	return &Ctx{P: p, Prop: prop, Tier: tier, seen: map[string]*Obligation{}, funcs: map[string]bool{}}
}

func (c *Ctx) add(verdict, rule, construct, pos, detail string) *Obligation {
	key := rule + "/" + construct
	if o, ok := c.seen[key]; ok {
		// same obligation evaluated twice: keep the worst verdict
		if rank(verdict) > rank(o.Verdict) {
			o.Verdict, o.Detail, o.Pos = verdict, detail, pos
		}
		return o
	}
	o := &Obligation{Key: key, Rule: rule, Pos: pos, Verdict: verdict, Detail: detail}
	c.seen[key] = o
	c.Obs = append(c.Obs, o)
	return o
}

func rank(v string) int {
	switch v {
	case "ok":
		return 0
	case "known":
		return 1
	case "undecided":
		return 2
	}
	return 3
}

func (c *Ctx) ok(rule, construct, pos, detail string) *Obligation {
	return c.add("ok", rule, construct, pos, detail)
}
func (c *Ctx) fail(rule, construct, pos, detail string) *Obligation {
	return c.add("violation", rule, construct, pos, detail)
}
func (c *Ctx) undecided(rule, construct, pos, detail string) *Obligation {
	return c.add("undecided", rule, construct, pos, detail)
}

// check records ok/violation depending on cond.
func (c *Ctx) check(cond bool, rule, construct, pos, okDetail, failDetail string) bool {
	if cond {
		c.ok(rule, construct, pos, okDetail)
	} else {
		c.fail(rule, construct, pos, failDetail)
	}
	return cond
}

func (c *Ctx) floor(rule string, min int, why string) {
	c.floors = append(c.floors, floor{rule, min, why})
}

func (c *Ctx) useFn(f *ssa.Function) {
	if f != nil {
		c.funcs[fnName(f)] = true
	}
}

// mustFunc resolves an anchor function; a missing anchor is undecided (fails).
func (c *Ctx) mustFunc(rel, name string) *ssa.Function {
	f := c.P.Func(rel, name)
	if f == nil || f.Blocks == nil {
		lbl := name
		if rel != "" {
			lbl = rel + ":" + name
		}
		c.undecided("ANCHOR", lbl, "-", "anchor function "+lbl+" not found in the current tree: the rules anchored there cannot be evaluated")
		return nil
	}
	c.useFn(f)
	return f
}

// ---------- known findings ----------

type KnownFinding struct {
	Status   string `json:"status"` // known | fixed
	Property string `json:"property"`
	Key      string `json:"key"`
	What     string `json:"what"`
	Commit   string `json:"commit,omitempty"`
}

func loadKnown(path string) ([]KnownFinding, error) {
	data, err := os.ReadFile(path)
	if err != nil {
		if os.IsNotExist(err) {
			return nil, nil
		}
		return nil, err
	}
	var k []KnownFinding
	if err := json.Unmarshal(data, &k); err != nil {
		return nil, err
	}
	return k, nil
}

// ---------- evidence ----------

type ruleStat struct {
	Rule      string `json:"rule"`
	Instances int    `json:"instances"`
	Floor     int    `json:"floor"`
	OK        int    `json:"ok"`
}

type propSpec struct {
	ID          string
	Level       string
	Run         func(c *Ctx)
	Explanation string
	Assumptions []string
}

var trustedBase = []string{
	"go/types and go/ssa of golang.org/x/tools v0.29.0 (type checking, SSA construction, dominators)",
	"go/packages loading of /repo's working tree with the default build configuration (asserted: no build-constrained production files)",
	"semantics of github.com/boz/go-lifecycle v0.1.0 as read (ShutdownInitiated closes ShuttingDown and panics if called twice; ShutdownCompleted closes Done)",
	"Go channel semantics (FIFO per channel, send/receive happens-before) and the Go memory model",
	"frozen tables in kcheck (atom recognisers, reference tables, blocking classes, trusted-pure external functions), each with a one-line reason",
}

func runChecks(repo, prop, tier, evdir, kfPath, explain string) int {
	if explain != "" {
		return runExplain(repo, explain, kfPath)
	}
	if prop == "" {
		fmt.Fprintln(os.Stderr, "usage: kcheck -prop Cxx [-tier quick|thorough] | -dump Fn | -explain file")
		return 2
	}
	start := time.Now()
	seed := 0
	if s := os.Getenv("VERIF_SEED"); s != "" {
		seed, _ = strconv.Atoi(s)
	}
	var ids []string
	if prop == "all" {
		for _, ps := range props {
			ids = append(ids, ps.ID)
		}
	} else {
		ids = strings.Split(prop, ",")
	}
	p, err := loadProg(repo)
	loadDur := time.Since(start)
	rc := 0
	for _, id := range ids {
		start := time.Now().Add(-loadDur) // wall time of this property = load + its own rules
		ps := findProp(id)
		if ps == nil {
			fmt.Fprintf(os.Stderr, "unknown property %s\n", id)
			return 2
		}
		c := newCtx(p, id, tier)
		if err != nil {
			c.undecided("LOAD", "repository", "-", "cannot load/type-check the repository: "+err.Error())
		} else {
			func() {
				defer func() {
					if r := recover(); r != nil {
						c.undecided("PANIC", "checker", "-", fmt.Sprintf("checker panic: %v\n%s", r, debug.Stack()))
					}
				}()
				ps.Run(c)
				runCanaries(c, ps)
			}()
		}
		if finish(c, ps, tier, seed, evdir, kfPath, start) != 0 {
			rc = 1
		}
	}
	return rc
}

func findProp(id string) *propSpec {
	for i := range props {
		if props[i].ID == id {
			return &props[i]
		}
	}
	return nil
}

func finish(c *Ctx, ps *propSpec, tier string, seed int, evdir, kfPath string, start time.Time) int {
	// floors
	counts := map[string]int{}
	okc := map[string]int{}
	for _, o := range c.Obs {
		counts[o.Rule]++
		if o.Verdict == "ok" {
			okc[o.Rule]++
		}
	}
	for _, f := range c.floors {
		if counts[f.rule] < f.min {
			c.undecided("FLOOR", f.rule, "-", fmt.Sprintf("rule %s matched %d instances, hand-confirmed floor is %d (%s): the rule would pass vacuously", f.rule, counts[f.rule], f.min, f.why))
		}
	}
	known, kerr := loadKnown(kfPath)
	if kerr != nil {
		c.undecided("KNOWN", "known_findings.json", "-", "cannot read known findings: "+kerr.Error())
	}
	viol := 0
	knownHits := 0
	var vioObs []*Obligation
	for _, o := range c.Obs {
		if o.Verdict == "violation" {
			for _, k := range known {
				if k.Status == "known" && k.Property == c.Prop && k.Key == o.Key {
					o.Verdict = "known"
					knownHits++
					fmt.Printf("KNOWN-FINDING: property=%s %s %s: %s\n", c.Prop, o.Key, o.Pos, k.What)
				}
			}
		}
		if o.Verdict == "violation" || o.Verdict == "undecided" {
			viol++
			vioObs = append(vioObs, o)
		}
	}
	// violation files
	vdir := filepath.Join(evdir, "violations")
	if viol > 0 {
		os.MkdirAll(vdir, 0o755)
	}
	// remove stale violation files of this property
	if ents, err := os.ReadDir(vdir); err == nil {
		for _, e := range ents {
			if strings.HasPrefix(e.Name(), c.Prop+"-") {
				os.Remove(filepath.Join(vdir, e.Name()))
			}
		}
	}
	for i, o := range vioObs {
		path := filepath.Join(vdir, fmt.Sprintf("%s-%d.json", c.Prop, i+1))
		data, _ := json.MarshalIndent(map[string]interface{}{"property": c.Prop, "obligation": o}, "", " ")
		os.WriteFile(path, data, 0o644)
		kind := ""
		if o.Verdict == "undecided" {
			kind = " kind=undecided"
		}
		fmt.Printf("VIOLATION property=%s replay=%s%s\n", c.Prop, path, kind)
		fmt.Printf("  %s: %s: %s\n", o.Pos, o.Key, o.Detail)
		if o.PathDump != "" {
			fmt.Print(indent(o.PathDump, "    "))
		}
	}
	// rule stats
	var rules []ruleStat
	var rn []string
	for r := range counts {
		rn = append(rn, r)
	}
	sort.Strings(rn)
	for _, r := range rn {
		fl := 0
		for _, f := range c.floors {
			if f.rule == r {
				fl = f.min
			}
		}
		rules = append(rules, ruleStat{Rule: r, Instances: counts[r], Floor: fl, OK: okc[r]})
	}
	discharged := 0
	for _, o := range c.Obs {
		if o.Verdict == "ok" {
			discharged++
		}
	}
	// samples: up to 14, spread across rules
	var samples []map[string]string
	perRule := map[string]int{}
	for _, o := range c.Obs {
		if perRule[o.Rule] >= 2 && o.Verdict == "ok" {
			continue
		}
		perRule[o.Rule]++
		samples = append(samples, map[string]string{"key": o.Key, "pos": o.Pos, "verdict": o.Verdict, "detail": trunc(o.Detail, 400)})
		if len(samples) >= 16 {
			break
		}
	}
	if len(samples) == 0 {
		samples = append(samples, map[string]string{"key": "none", "verdict": "undecided", "detail": "no obligation was generated"})
	}
	var fns []string
	for f := range c.funcs {
		fns = append(fns, f)
	}
	sort.Strings(fns)
	npk := 0
	if c.P != nil {
		npk = len(c.P.Pkgs)
	}
	cov := map[string]interface{}{
		"explanation":         ps.Explanation,
		"obligations":         len(c.Obs),
		"discharged":          discharged,
		"evaluations":         len(c.Obs),
		"distinct_nontrivial": len(c.seen),
		"rule":                "one obligation = one rule instance on one construct, keyed rule/function/construct; distinct = distinct keys; every obligation is non-trivial in that its rule matched a concrete site of /repo's current source",
		"rules":               rules,
		"paths_walked":        c.paths,
		"call_sites":          c.sites,
		"functions_analysed":  fns,
		"packages_loaded":     npk,
		"known_findings":      knownHits,
		"samples":             samples,
		"checker_cmd":         fmt.Sprintf("bin/kcheck -prop %s -tier %s", c.Prop, tier),
		"trusted_base":        trustedBase,
		"exhaustive":          true,
		"notes":               c.notes,
	}
	if ps.Level == "translation_validation" {
		cov["programs"] = tvPrograms
		cov["disagreements_checked"] = tvNodes
	}
	ev := map[string]interface{}{
		"property_id": c.Prop,
		"tier":        tier,
		"seed":        seed,
		"level":       ps.Level,
		"coverage":    cov,
		"assumptions": ps.Assumptions,
		"wall_s":      time.Since(start).Seconds(),
		"violations":  viol,
	}
	os.MkdirAll(evdir, 0o755)
	data, _ := json.MarshalIndent(ev, "", " ")
	if err := os.WriteFile(filepath.Join(evdir, c.Prop+".json"), data, 0o644); err != nil {
		fmt.Fprintln(os.Stderr, "cannot write evidence:", err)
		return 1
	}
	fmt.Printf("%s tier=%s: %d obligations, %d discharged, %d known findings, %d violations/undecided; %d paths, %d functions (%.1fs)\n",
		c.Prop, tier, len(c.Obs), discharged, knownHits, viol, c.paths, len(fns), time.Since(start).Seconds())
	for _, r := range rules {
		fmt.Printf("  rule %-38s matched %3d (floor %d)\n", r.Rule, r.Instances, r.Floor)
	}
	if viol > 0 {
		return 1
	}
	return 0
}

// translation-validation counters (set by C20)
var tvPrograms, tvNodes int

func runExplain(repo, file, kfPath string) int {
	data, err := os.ReadFile(file)
	if err != nil {
		fmt.Fprintln(os.Stderr, err)
		return 2
	}
	var v struct {
		Property   string     `json:"property"`
		Obligation Obligation `json:"obligation"`
	}
	if err := json.Unmarshal(data, &v); err != nil {
		fmt.Fprintln(os.Stderr, err)
		return 2
	}
	ps := findProp(v.Property)
	if ps == nil {
		fmt.Fprintln(os.Stderr, "unknown property in file")
		return 2
	}
	p, err := loadProg(repo)
	if err != nil {
		fmt.Println("cannot load repository:", err)
		return 1
	}
	c := newCtx(p, v.Property, "quick")
	func() {
		defer func() {
			if r := recover(); r != nil {
				c.undecided("PANIC", "checker", "-", fmt.Sprintf("checker panic: %v", r))
			}
		}()
		ps.Run(c)
	}()
	o := c.seen[v.Obligation.Key]
	if o == nil {
		fmt.Printf("obligation %s no longer exists on the current tree\n", v.Obligation.Key)
		return 1
	}
	fmt.Printf("%s\n  %s: %s\n  %s\n", o.Key, o.Pos, o.Verdict, o.Detail)
	if o.PathDump != "" {
		fmt.Print(indent(o.PathDump, "    "))
	}
	if o.Verdict == "ok" {
		return 0
	}
	fmt.Printf("VIOLATION property=%s replay=%s\n", v.Property, file)
	return 1
}

func indent(s, pre string) string {
	lines := strings.Split(strings.TrimRight(s, "\n"), "\n")
	return pre + strings.Join(lines, "\n"+pre) + "\n"
}

func trunc(s string, n int) string {
	if len(s) <= n {
		return s
	}
	return s[:n] + "…"
}

#!/usr/bin/env python3
"""Regenerates /verif/MANIFEST.json from the table below (kept next to the checker so the two stay in step)."""
import json

ENV = "GOFLAGS=-mod=mod GOPROXY=off GOSUMDB=off GOTOOLCHAIN=local GOWORK=off"
SETUP = f"cd /verif/kcheck && {ENV} go build -o /verif/bin/kcheck ."

TRUST = ("Trusted base: go/packages + go/types + go/ssa of golang.org/x/tools v0.29.0 on /repo's working tree (default build "
         "configuration; the loader fails if a build-constrained production file appears); go-lifecycle v0.1.0 semantics as read; "
         "Go channel/memory-model semantics; the frozen tables in kcheck (atom recognisers, reference tables, blocking classes, "
         "trusted-pure functions). An unrecognised shape, a missing anchor, a type error, a rule below its instance floor or a "
         "checker panic all FAIL the check (kind=undecided) rather than pass.")

# id -> (technique, level category, text, design_ref)
CLAIMS = {
 "C01": ("path-sensitive decision-table extraction over SSA (doUpdate, doSync item/sweep, run dispatch) + field confinement",
         "other", "Decides the per-step transition function of the cache for every abstract input (all objects, versions, filters; "
         "by induction every history): each acyclic SSA path of doUpdate / one doSync element / the sweep is compared with the reference "
         "semantics; plus single-owner confinement of items/filter, key construction, doRefilter flow, no Accept on an absent entry, and the "
         "list helpers between client and cache.sync handing over the server's list element for element (duplicates are folded by version only). "
         "Does not decide filter purity or duplicates beyond the left fold.", "DESIGN.md §5 C01"),
 "C03": ("transition-table extraction of controller.run + shape rules for the list helpers",
         "other", "Decides that every list result is reconciled into the cache, published (after the first) and followed by a watch "
         "reset at that list's version, that every failure initiates shutdown with its cause, that the list arm is always enabled and "
         "the watcher channel re-read each iteration, and that lists are requested with empty ListOptions. Convergence time and "
         "server behaviour are not decided.", "DESIGN.md §5 C03"),
 "C04": ("transition-table extraction of _watcher.run and _watchSession.run (loop-carried state read off SSA phis) + value-flow",
         "other", "Decides the structural clauses of watch continuity: frame dispatch, resume at the version of the last event taken, "
         "reconnect re-armed after every session end and never fatal, output channel stable across reconnects and replaced (fresh) only "
         "by reset, controller re-reads events() each iteration, a session completes on every path (also when the connect fails) so that the retry is always scheduled. Server replay and latency are not decided.", "DESIGN.md §5 C04"),
 "C05": ("no-spawn / single-sender / who-may-call analysis + shape rules of the distributors and pub/sub run loops",
         "other", "Decides, for all schedules, the structure in-order exactly-once delivery needs: no goroutine on the event path, one "
         "sending function per event channel, distributors are complete single ranges with one delivery per element, the publisher map "
         "is confined to its loop, registration returns the registered subscription, cache replies after its handler. Overflow and "
         "fairness are premises.", "DESIGN.md §5 C05"),
 "C06": ("transition-table extraction of filterSubscription.run + constructor/accessor value-flow",
         "other", "Decides every step of the filtered-subscription state machine (P/pending/ready/D × isNew/ok/errors) against the "
         "reference table, the constructor flows (private cache built with the filter, deferred variants start from the reject-all "
         "filter), the event distribution shape, synchronous in-order hand-over of Refilter requests, and that filter values cannot change under a subscription (constructors copy their arguments); the drained-state equality follows by induction over steps and is not itself decided.",
         "DESIGN.md §5 C06-C08"),
 "C10": ("channel-operation inventory (non-blocking sends, buffer capacities) + blocking classification + who-may-call",
         "other", "Decides that no stage of the event path can be blocked by a consumer: all consumer-facing sends are select-with-default "
         "on buffers of capacity EventBufsiz, hand-off receivers have no blocking operation besides their loop select, callbacks run "
         "only on the monitor goroutine, and every fan-out loop delivers to every subscriber with no early exit (a full or failed subscriber cannot cut off the others). Which events drop under overflow is not decided.", "DESIGN.md §5 C10"),
 "C11": ("value-flow of stop channels through constructors + who-may-call on Shutdown/Close + linearity of feeding subscriptions",
         "other", "Decides stop-channel wiring downwards, exit-on-parent-close rows of the consumer loops, Events() closed once by its "
         "only sender on exit, Shutdown requested only on the receiver's own lifecycle, every other Close forwarding to the one "
         "exclusively-owned feeding subscription; a typed subscription's loop blocks on nothing but its parent's event stream (blocking "
         "inventory of the typed packages), so the cascade reaches typed descendants. 'Eventually' needs C12 and the scheduler.", "DESIGN.md §5 C11"),
 "C12": ("lifecycle typestate data-flow + exhaustive blocking-operation inventory with justified classes + must-fact analysis of join waits",
         "other", "Decides: ShutdownInitiated exactly once on every path to return of every run function; every blocking operation of the "
         "root/join/client packages falls in a justified class K1..K9; every join-wait is preceded on all paths by what stops its target; "
         "reply channels buffered; goroutine inventory; contexts of external calls cancelled at shutdown. Bounds in seconds are not decided.",
         "DESIGN.md §5 C12"),
 "C13": ("phase-table extraction of _lister.run and _ticker.run + period value-flow",
         "other", "Decides that exactly one of tick/list/deliver is armed in every phase (lists one at a time, cycle has no dead end), "
         "that the ticker is re-armed after each consumed result, drained without blocking and a pending tick is disabled on reset (Stop/drain "
         "before the re-arming Reset, never after it; omissible only where the table's own rows make them no-ops), and that "
         "the configured period reaches the timer. Numeric spacing is not decided.", "DESIGN.md §5 C13"),
 "C16": ("decision-table extraction of monitor.run + who-may-call on Handler methods",
         "other", "Decides: OnInitialize exactly once before the event loop with the list taken at readiness; one callback per event by "
         "type with that event's resource; none on shutdown/early-close paths; no goroutine; callbacks only from monitor.run; Done() is the "
         "monitor's own lifecycle; typed monitors forward slot-for-slot.", "DESIGN.md §5 C16"),
}

CLAIMS.update({
 "C02": ("event columns of the cache decision tables + value-flow of the distributed slices + distributor shape rules",
         "other", "Decides that Create/Update/Delete are emitted exactly on the rows that change the cache in that way (and nothing on no-op rows), "
         "with the row's object and type, that every mutator returns exactly the events it built, and that controller and filtered "
         "subscription publish exactly that slice, each element once, in order. Event order inside a batch is compared as a set.", "DESIGN.md §5 C02"),
 "C07": ("refilter rows of the filterSubscription table + doSync table at equal versions + equality-soundness rules",
         "other", "Decides the per-step behaviour of Refilter (equal filter: nothing; changed: list parent, refilter, remember, distribute "
         "exactly those events; membership changes are the doSync rows at equal versions) and re-evaluates C17's soundness rules that the "
         "equal-filter short-circuit relies on. 'No events in flight' is the property's premise.", "DESIGN.md §5 C06-C08"),
 "C08": ("controller/filterSubscription tables (readiness rows) + ready-channel value-flow + who-may-close",
         "other", "Decides when ready channels close (controller: first successful sync only; filtered: only rows that synced the private "
         "cache; deferred ones start from the reject-all filter), that every Ready() hands out that very channel, that only the two run loops "
         "close it, that distribution needs ready=T and the watcher starts with no channel, that a failed first list reaches the controller as a failure (never as an empty list), and that joins refilter only from callbacks.", "DESIGN.md §5 C06-C08"),
 "C09": ("value-flow / shape rules on the generated joins + resource-release path analysis + who-may-close",
         "other", "Decides the join construction (for-filter clone of the destination, all four handler slots, refilter from the full current "
         "source cache at callback time, monitor on the source), that everything created in package join is released on every exit (returned, "
         "closed, or tied to the result's Done()), and that nothing handed in is ever closed. Quiescent equality rests on C06/C07/C16/C19.", "DESIGN.md §5 C09"),
 "C14": ("error rows of the controller table + shape rules of the list helpers + containment rules for watch failures",
         "other", "Decides that each list failure kind stops the controller with a cause derived from the failing call, that a deliberate Close "
         "reports nil, that Error() is the lifecycle's error, and that watch failures cannot escalate (watcher initiates shutdown only on request, "
         "always re-arms a retry; the session touches its connection only after the connect error check), and that every subscription reports its end to its publisher exactly once however it ended (the subtree's drain terminates).", "DESIGN.md §5 C14"),
 "C15": ("field confinement (single-owner) + atomic-handler rule + snapshot freshness",
         "other", "A static race-freedom/atomicity argument for all schedules: cache state is touched only on the one run goroutine, each handler "
         "runs to completion inside one select arm, replies carry the handler's own result, List returns a fresh slice of every entry, the map "
         "never escapes, and a version that is not newer never replaces the cached one (reads never go backwards: the C01 step tables). Caller mutation of the shared objects is outside C15.", "DESIGN.md §5 C15"),
 "C17": ("method-set enumeration of ComparableFilter implementors + read-set vs compared-set (non-interference) analysis",
         "other", "Decides for every comparable filter type that Equals asserts its own type and compares, with a trusted comparator pairing the "
         "same field on both sides, every part of the receiver that Accept reads; Accept purity; FiltersEqual's table; compareFilterList's "
         "length-and-every-index shape. A repository helper counts as a trusted comparator only if its control-flow graph proves it a map equality "
         "(length test and exhausted range on every path to true; presence-checked lookup and value comparison on every path round the loop). "
         "Completeness of equality is not required; DeepEqual on selector internals is trusted.", "DESIGN.md §5 C17"),
 "C18": ("shape rules over the SSA paths of every Accept and constructor in package filter",
         "other", "Decides the boolean structure of Null/All/Not/And/Or, the NSName routing and wildcard table, that selector filters are exactly "
         "selector.Matches(obj labels) with no shortcut, the constructor chains, and purity of Accept. Kubernetes selector semantics are delegated.", "DESIGN.md §5 C18"),
 "C19": ("sibling-shape comparison of the seven PodsFilter + shape rules for the ingress and kind filters",
         "other", "Decides that every workload pods filter sorts a copy of its sources, scopes each element to that source's namespace and uses "
         "selector-or-template-fallback, that the ingress filter collects the default backend and every rule path per ingress independently, and "
         "the kind guards/field pairing of node, involved-object and selector-match filters (presence-checked subset test), and the Accept/constructor shapes of the combinators these filters are built from. One known finding (RC namespace scoping).", "DESIGN.md §5 C19"),
 "C20": ("token-level unification of generated files with their templates + shape rules on the instances + client-go oracle for typed clients + cache decision tables (object identity of events and lists)",
         "translation_validation", "Validates all 20 generated files against their templates (one consistent ObjectType binding per typed package; "
         "join template instantiated from the generated signature), and decides template robustness (comma-ok, foreign objects skipped, "
         "non-blocking forwarding, 1:1 forwarders) and that each typed client uses the API group and resource string of client-go's own typed "
         "client; and that the core hands the typed adapters the very objects it was given (event and list columns of the cache tables), without "
         "which their type assertions would drop what untyped subscribers see. Differential typed/untyped runs are not performed.", "DESIGN.md §5 C20"),
})

def main():
    props = [json.loads(l) for l in open('/verif/properties.jsonl')]
    checks = []
    na = []
    for p in props:
        pid = p['id']
        if pid in CLAIMS:
            tech, cat, text, ref = CLAIMS[pid]
            checks.append({
                "property_id": pid,
                "quick_cmd": f"/verif/bin/kcheck -prop {pid} -tier quick",
                "thorough_cmd": f"/verif/bin/kcheck -prop {pid} -tier thorough",
                "evidence_file": f"/verif/evidence/{pid}.json",
                "replay_cmd_template": "/verif/bin/kcheck -explain {path}",
                "engine": "kcheck",
                "level_claimed": {"category": cat, "text": text, "design_ref": ref},
                "level_note": TRUST,
                "technique": "static analysis: " + tech,
            })
        else:
            na.append({"property_id": pid, "reason": "check under construction in this session (rules designed in DESIGN.md §5); will be claimed once implemented and validated"})
    m = {
        "version": 1,
        "setup_cmd": SETUP,
        "hooks": {"guard": "verif", "enable": "none needed: static analysis reads /repo's source as it is; no hook commits exist",
                  "baseline_off_cmd": "cd /repo && GOFLAGS=-mod=mod GOPROXY=off go test -vet=off -count=1 ./...",
                  "source_commits": [], "add_only": True},
        "engines": [{"name": "kcheck", "path": "/verif/kcheck", "serves_properties": sorted(CLAIMS),
                     "kind_free_text": "repository-specific static analyser on go/packages + go/ssa (x/tools v0.29.0): region path walker, decision-table comparison, typestate/dataflow, confinement and who-may-call rules"}],
        "checks": checks,
        "not_applicable": na,
        "notes": "All checks are pure static analysis of /repo's current working tree (nothing is executed). Each check runs its property's core rules plus the rules of every component the property's statement depends on (compositions: DESIGN.md §8, RULES.md). Genuine defects found and repaired: see known_findings.json and DESIGN.md §6.",
    }
    if not na:
        del m["not_applicable"]
    json.dump(m, open('/verif/MANIFEST.json', 'w'), indent=1)
    print("claimed", len(checks), "not_applicable", len(na))

if __name__ == '__main__':
    main()

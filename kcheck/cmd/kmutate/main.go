// kmutate: first-order mutant generator for the checker's own adequacy audit
// (never part of a registered check).  Writes one mutated copy of a source
// file per mutant into an output directory, plus an index.json describing
// each mutant (file, line, operator, original/new text).
package main

import (
	"bytes"
	"encoding/json"
	"flag"
	"fmt"
	"go/ast"
	"go/format"
	"go/parser"
	"go/token"
	"os"
	"path/filepath"
	"strings"
)

type Mutant struct {
	ID   int    `json:"id"`
	File string `json:"file"`
	Line int    `json:"line"`
	Func string `json:"func"`
	Op   string `json:"op"`
	Desc string `json:"desc"`
	Path string `json:"path"`
}

var relOps = map[token.Token][]token.Token{
	token.LSS: {token.LEQ, token.GTR},
	token.LEQ: {token.LSS},
	token.GTR: {token.GEQ, token.LSS},
	token.GEQ: {token.GTR},
	token.EQL: {token.NEQ},
	token.NEQ: {token.EQL},
	token.LAND: {token.LOR},
	token.LOR:  {token.LAND},
}

func main() {
	out := flag.String("out", "/tmp/kmutants", "output directory")
	repo := flag.String("repo", "/repo", "repository")
	flag.Parse()
	os.MkdirAll(*out, 0o755)
	var all []Mutant
	id := 0
	for _, rel := range flag.Args() {
		path := filepath.Join(*repo, rel)
		src, err := os.ReadFile(path)
		if err != nil {
			fmt.Fprintln(os.Stderr, err)
			continue
		}
		// enumerate mutation points on a fresh parse each time (apply i-th point)
		count := countPoints(src, path)
		for i := 0; i < count; i++ {
			fset := token.NewFileSet()
			f, err := parser.ParseFile(fset, path, src, parser.ParseComments)
			if err != nil {
				break
			}
			m := applyPoint(fset, f, i)
			if m == nil {
				continue
			}
			var buf bytes.Buffer
			if err := format.Node(&buf, fset, f); err != nil {
				continue
			}
			if bytes.Equal(buf.Bytes(), src) {
				continue
			}
			id++
			m.ID = id
			m.File = rel
			m.Path = filepath.Join(*out, fmt.Sprintf("m%04d_%s", id, strings.ReplaceAll(rel, "/", "_")))
			os.WriteFile(m.Path, buf.Bytes(), 0o644)
			all = append(all, *m)
		}
	}
	data, _ := json.MarshalIndent(all, "", " ")
	os.WriteFile(filepath.Join(*out, "index.json"), data, 0o644)
	fmt.Printf("%d mutants written to %s\n", len(all), *out)
}

type point struct {
	apply func() *Mutant
}

func collect(fset *token.FileSet, f *ast.File) []point {
	var pts []point
	var curFn string
	line := func(p token.Pos) int { return fset.Position(p).Line }
	isLogCall := func(e ast.Expr) bool {
		c, ok := e.(*ast.CallExpr)
		if !ok {
			return false
		}
		var b bytes.Buffer
		format.Node(&b, fset, c.Fun)
		s := b.String()
		return strings.Contains(s, ".log.") || strings.HasPrefix(s, "log.") || strings.Contains(s, "Debugf") || strings.Contains(s, "Warnf") || strings.Contains(s, "Errorf") || strings.Contains(s, "ErrWarn")
	}
	var visitBlock func(list *[]ast.Stmt)
	visitBlock = func(list *[]ast.Stmt) {
		for i := range *list {
			i := i
			st := (*list)[i]
			switch s := st.(type) {
			case *ast.ExprStmt:
				if isLogCall(s.X) {
					continue
				}
				fn := curFn
				// delete call statement
				pts = append(pts, point{func() *Mutant {
					var b bytes.Buffer
					format.Node(&b, fset, s)
					l := line(s.Pos())
					*list = append((*list)[:i:i], (*list)[i+1:]...)
					return &Mutant{Line: l, Func: fn, Op: "delete-call", Desc: "delete `" + trunc(b.String()) + "`"}
				}})
				// go insertion
				if call, ok := s.X.(*ast.CallExpr); ok {
					pts = append(pts, point{func() *Mutant {
						var b bytes.Buffer
						format.Node(&b, fset, s)
						l := line(s.Pos())
						(*list)[i] = &ast.GoStmt{Go: s.Pos(), Call: call}
						return &Mutant{Line: l, Func: fn, Op: "insert-go", Desc: "go `" + trunc(b.String()) + "`"}
					}})
				}
			case *ast.AssignStmt:
				fn := curFn
				if s.Tok == token.ASSIGN {
					pts = append(pts, point{func() *Mutant {
						var b bytes.Buffer
						format.Node(&b, fset, s)
						l := line(s.Pos())
						*list = append((*list)[:i:i], (*list)[i+1:]...)
						return &Mutant{Line: l, Func: fn, Op: "delete-assign", Desc: "delete `" + trunc(b.String()) + "`"}
					}})
				}
			case *ast.SendStmt:
				fn := curFn
				pts = append(pts, point{func() *Mutant {
					var b bytes.Buffer
					format.Node(&b, fset, s)
					l := line(s.Pos())
					*list = append((*list)[:i:i], (*list)[i+1:]...)
					return &Mutant{Line: l, Func: fn, Op: "delete-send", Desc: "delete `" + trunc(b.String()) + "`"}
				}})
			case *ast.BranchStmt:
				fn := curFn
				if s.Tok == token.CONTINUE || s.Tok == token.BREAK {
					pts = append(pts, point{func() *Mutant {
						l := line(s.Pos())
						lbl := ""
						if s.Label != nil {
							lbl = " " + s.Label.Name
						}
						*list = append((*list)[:i:i], (*list)[i+1:]...)
						return &Mutant{Line: l, Func: fn, Op: "delete-branch", Desc: "delete `" + s.Tok.String() + lbl + "`"}
					}})
				}
			case *ast.GoStmt:
				fn := curFn
				pts = append(pts, point{func() *Mutant {
					l := line(s.Pos())
					(*list)[i] = &ast.ExprStmt{X: s.Call}
					return &Mutant{Line: l, Func: fn, Op: "remove-go", Desc: "call synchronously instead of go"}
				}})
			case *ast.DeferStmt:
				fn := curFn
				pts = append(pts, point{func() *Mutant {
					var b bytes.Buffer
					format.Node(&b, fset, s)
					l := line(s.Pos())
					*list = append((*list)[:i:i], (*list)[i+1:]...)
					return &Mutant{Line: l, Func: fn, Op: "delete-defer", Desc: "delete `" + trunc(b.String()) + "`"}
				}})
			}
		}
	}
	ast.Inspect(f, func(n ast.Node) bool {
		switch x := n.(type) {
		case *ast.FuncDecl:
			curFn = x.Name.Name
			if x.Recv != nil && len(x.Recv.List) > 0 {
				var b bytes.Buffer
				format.Node(&b, fset, x.Recv.List[0].Type)
				curFn = strings.TrimPrefix(b.String(), "*") + "." + x.Name.Name
			}
		case *ast.BlockStmt:
			visitBlock(&x.List)
		case *ast.CaseClause:
			visitBlock(&x.Body)
		case *ast.CommClause:
			visitBlock(&x.Body)
			if x.Comm == nil { // default: of a select → remove it (send becomes blocking)
				// handled at SelectStmt level
			}
		case *ast.SelectStmt:
			fn := curFn
			for i, cl := range x.Body.List {
				i := i
				cc := cl.(*ast.CommClause)
				if cc.Comm == nil {
					pts = append(pts, point{func() *Mutant {
						l := line(cc.Pos())
						x.Body.List = append(x.Body.List[:i:i], x.Body.List[i+1:]...)
						return &Mutant{Line: l, Func: fn, Op: "remove-default", Desc: "remove `default:` of select (blocking)"}
					}})
				}
			}
		case *ast.BinaryExpr:
			fn := curFn
			for _, alt := range relOps[x.Op] {
				alt := alt
				pts = append(pts, point{func() *Mutant {
					var b bytes.Buffer
					format.Node(&b, fset, x)
					l := line(x.Pos())
					old := x.Op
					x.Op = alt
					return &Mutant{Line: l, Func: fn, Op: "relop", Desc: "`" + trunc(b.String()) + "`: " + old.String() + " → " + alt.String()}
				}})
			}
		case *ast.IfStmt:
			fn := curFn
			pts = append(pts, point{func() *Mutant {
				var b bytes.Buffer
				format.Node(&b, fset, x.Cond)
				l := line(x.Pos())
				x.Cond = &ast.UnaryExpr{Op: token.NOT, X: &ast.ParenExpr{X: x.Cond}}
				return &Mutant{Line: l, Func: fn, Op: "negate-if", Desc: "negate `if " + trunc(b.String()) + "`"}
			}})
		case *ast.UnaryExpr:
			if x.Op == token.NOT {
				fn := curFn
				pts = append(pts, point{func() *Mutant {
					var b bytes.Buffer
					format.Node(&b, fset, x)
					l := line(x.Pos())
					x.Op = token.ADD // +x is invalid for bool; instead wrap: replace by double negation removal below
					return &Mutant{Line: l, Func: fn, Op: "drop-not-INVALID", Desc: trunc(b.String())}
				}})
			}
		case *ast.Ident:
			if x.Name == "true" || x.Name == "false" {
				fn := curFn
				pts = append(pts, point{func() *Mutant {
					l := line(x.Pos())
					old := x.Name
					if old == "true" {
						x.Name = "false"
					} else {
						x.Name = "true"
					}
					return &Mutant{Line: l, Func: fn, Op: "bool-const", Desc: old + " → " + x.Name}
				}})
			}
		case *ast.CallExpr:
			// swap two adjacent arguments (type checker filters the ill-typed ones)
			fn := curFn
			if !isLogCall(x) && len(x.Args) >= 2 {
				for i := 0; i+1 < len(x.Args); i++ {
					i := i
					pts = append(pts, point{func() *Mutant {
						var b bytes.Buffer
						format.Node(&b, fset, x)
						l := line(x.Pos())
						x.Args[i], x.Args[i+1] = x.Args[i+1], x.Args[i]
						return &Mutant{Line: l, Func: fn, Op: "swap-args", Desc: "swap args " + fmt.Sprint(i) + "," + fmt.Sprint(i+1) + " of `" + trunc(b.String()) + "`"}
					}})
				}
			}
		case *ast.CompositeLit:
			// swap two adjacent positional elements
			fn := curFn
			if len(x.Elts) >= 2 {
				if _, kv := x.Elts[0].(*ast.KeyValueExpr); !kv {
					for i := 0; i+1 < len(x.Elts); i++ {
						i := i
						pts = append(pts, point{func() *Mutant {
							var b bytes.Buffer
							format.Node(&b, fset, x)
							l := line(x.Pos())
							x.Elts[i], x.Elts[i+1] = x.Elts[i+1], x.Elts[i]
							return &Mutant{Line: l, Func: fn, Op: "swap-elts", Desc: "swap elements of `" + trunc(b.String()) + "`"}
						}})
					}
				}
			}
		}
		return true
	})
	return pts
}

func countPoints(src []byte, path string) int {
	fset := token.NewFileSet()
	f, err := parser.ParseFile(fset, path, src, parser.ParseComments)
	if err != nil {
		return 0
	}
	return len(collect(fset, f))
}

func applyPoint(fset *token.FileSet, f *ast.File, i int) *Mutant {
	pts := collect(fset, f)
	if i >= len(pts) {
		return nil
	}
	m := pts[i].apply()
	if m != nil && strings.HasSuffix(m.Op, "INVALID") {
		return nil
	}
	return m
}

func trunc(s string) string {
	s = strings.Join(strings.Fields(s), " ")
	if len(s) > 70 {
		return s[:70] + "…"
	}
	return s
}

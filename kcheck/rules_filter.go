package main

// Filter rules: combinator shapes (C18), equality soundness (C17), workload
// selection filters (C19).

import (
	"go/token"
	"fmt"
	"go/types"
	"sort"
	"strings"

	"golang.org/x/tools/go/ssa"
)

// pathsOf walks a whole function.
func pathsOf(c *Ctx, fn *ssa.Function) []*Path {
	w := &Walker{P: c.P}
	ps := w.FuncRegion(fn)
	c.paths += len(ps)
	return ps
}

func isParamT(t *Term, name string) bool { return t != nil && t.K == "param" && t.S == name }

func retConst(pa *Path) (string, bool) {
	if pa.End.Kind == "return" && len(pa.End.Results) == 1 && pa.End.Results[0].K == "const" {
		return pa.End.Results[0].S, true
	}
	return "", false
}

// checkPure: fn and nothing it does writes shared state, communicates or spawns.
func checkPure(c *Ctx, rule string, fn *ssa.Function) {
	bad := ""
	for _, b := range fn.Blocks {
		for _, in := range b.Instrs {
			switch x := in.(type) {
			case *ssa.Go, *ssa.Send, *ssa.Select, *ssa.MapUpdate:
				bad = fmt.Sprintf("%T", x)
			case *ssa.Store:
				if al := addrRoot(x.Addr); al == nil || allocEscapes(al) && !strings.Contains(al.Comment, "varargs") {
					bad = "store to non-local memory"
				}
			case *ssa.UnOp:
				if x.Op.String() == "<-" {
					bad = "channel receive"
				}
			}
		}
	}
	c.check(bad == "", rule, fnName(fn)+"/pure", c.P.fnPos(fn), "no store/send/receive/go", fnName(fn)+" is not a pure function of its arguments: "+bad)
}

// ---------- C18 ----------

func checkCombinators(c *Ctx) {
	rule := "T-SHAPE(Accept)"
	// constant filters
	for _, k := range [][2]string{{"nullFilter.Accept", "true"}, {"allFilter.Accept", "false"}} {
		if fn := c.mustFunc("filter", k[0]); fn != nil {
			ok := true
			ps := pathsOf(c, fn)
			for _, pa := range ps {
				if v, isc := retConst(pa); !isc || v != k[1] {
					ok = false
				}
			}
			c.check(ok && len(ps) >= 1, rule, "filter:"+k[0]+"/constant-"+k[1], c.P.fnPos(fn), "", "filter."+k[0]+" does not return "+k[1]+" on every path")
			checkPure(c, "T-PURE(Accept)", fn)
		}
	}
	// Null()/All() return the right zero structs
	for _, k := range [][2]string{{"Null", "nullFilter"}, {"All", "allFilter"}} {
		if fn := c.mustFunc("filter", k[0]); fn != nil {
			ps := pathsOf(c, fn)
			ok := len(ps) == 1 && len(ps[0].End.Results) == 1 && strings.HasSuffix(ps[0].End.Results[0].S, k[1])
			c.check(ok, "T-SHAPE(ctor)", "filter:"+k[0]+"/returns-"+k[1], c.P.fnPos(fn), "", "filter."+k[0]+"() does not return a "+k[1])
		}
	}
	// Not
	if fn := c.mustFunc("filter", "notFilter.Accept"); fn != nil {
		ps := pathsOf(c, fn)
		ok := len(ps) == 1 && len(ps[0].End.Results) == 1
		if ok {
			r := ps[0].End.Results[0]
			ok = r.K == "not" && r.A[0].K == "invoke" && r.A[0].S == "Accept" && r.A[0].A[0].IsRecvField("child") && len(r.A[0].A) == 2 && r.A[0].A[1].K == "param"
		}
		c.check(ok, rule, "filter:notFilter.Accept/negation-of-child", c.P.fnPos(fn), "", "notFilter.Accept is not `!f.child.Accept(obj)`")
		checkPure(c, "T-PURE(Accept)", fn)
	}
	if fn := c.mustFunc("filter", "Not"); fn != nil {
		ps := pathsOf(c, fn)
		ok := len(ps) == 1
		if ok {
			ok = false
			for _, e := range ps[0].Effects {
				if e.Kind == "store" && e.Addr.K == "faddr" && e.Addr.S == "child" && e.Val.K == "param" {
					ok = true
				}
			}
		}
		c.check(ok, "T-SHAPE(ctor)", "filter:Not/wraps-its-argument", c.P.fnPos(fn), "", "filter.Not does not wrap its argument as the child")
	}
	// And / Or
	for _, k := range []struct {
		name            string
		onAccept, atEnd string
	}{{"andFilter.Accept", "continue", "true"}, {"orFilter.Accept", "true", "false"}} {
		fn := c.mustFunc("filter", k.name)
		if fn == nil {
			continue
		}
		checkPure(c, "T-PURE(Accept)", fn)
		loops := findLoops(fn)
		if len(loops) != 1 {
			c.fail(rule, "filter:"+k.name+"/single-loop", c.P.fnPos(fn), "expected one loop over the children")
			continue
		}
		ps := (&Walker{P: c.P}).IterRegion(fn, loops[0])
		c.paths += len(ps)
		recvName, objName := fn.Params[0].Name(), fn.Params[1].Name()
		ok, detail := true, ""
		seen := map[string]bool{}
		for _, pa := range ps {
			var more, moreKnown, acc, accKnown bool
			for _, l := range pa.Lits {
				t := l.T
				switch {
				case t.K == "binop" && t.S == "<" && t.A[1].K == "len" && isParamT(t.A[1].A[0], recvName):
					more, moreKnown = l.Val, true
				case t.K == "invoke" && t.S == "Accept" && t.A[0].K == "index" && isParamT(t.A[0].A[0], recvName) && isParamT(t.A[1], objName):
					acc, accKnown = l.Val, true
				default:
					ok, detail = false, "unexpected condition "+l.String()
				}
			}
			outcome := ""
			switch pa.End.Kind {
			case "stop":
				outcome = "continue"
			case "return":
				outcome, _ = retConst(pa)
			}
			switch {
			case moreKnown && !more:
				seen["end"] = true
				if outcome != k.atEnd {
					ok, detail = false, "after the last child the result is "+outcome+", want "+k.atEnd
				}
			case moreKnown && more && accKnown && acc:
				seen["acc"] = true
				if outcome != k.onAccept {
					ok, detail = false, "when a child accepts: "+outcome+", want "+k.onAccept
				}
			case moreKnown && more && accKnown && !acc:
				seen["rej"] = true
				want := "false"
				if k.onAccept == "true" {
					want = "continue"
				}
				if outcome != want {
					ok, detail = false, "when a child rejects: "+outcome+", want "+want
				}
			default:
				ok, detail = false, "path not keyed on (more children, child.Accept(obj))"
			}
		}
		if !(seen["end"] && seen["acc"] && seen["rej"]) {
			ok, detail = false, "missing case"
		}
		c.check(ok, rule, "filter:"+k.name+"/fold-over-children", c.P.fnPos(fn), "", k.name+": "+detail)
	}
	for _, n := range []string{"And", "Or"} {
		if fn := c.mustFunc("filter", n); fn != nil {
			ps := pathsOf(c, fn)
			ok := len(ps) == 1 && len(ps[0].End.Results) == 1 && ps[0].End.Results[0].K == "param"
			c.check(ok, "T-SHAPE(ctor)", "filter:"+n+"/children-as-given", c.P.fnPos(fn), "", "filter."+n+" does not return exactly its children")
		}
	}
	checkNSNameFilter(c)
	// selector
	if fn := c.mustFunc("filter", "selectorFilter.Accept"); fn != nil {
		ps := pathsOf(c, fn)
		ok := len(ps) == 1 && len(ps[0].End.Results) == 1
		if ok {
			r := ps[0].End.Results[0]
			ok = r.K == "invoke" && r.S == "Matches" && r.A[0].IsRecvField("selector") && len(r.A) == 2 &&
				r.A[1].K == "invoke" && r.A[1].S == "GetLabels" && r.A[1].A[0].K == "param"
		}
		c.check(ok, rule, "filter:selectorFilter.Accept/selector.Matches(obj-labels)", c.P.fnPos(fn), "", "selectorFilter.Accept is not exactly `f.selector.Matches(labels.Set(obj.GetLabels()))` on every path (Kubernetes selector semantics must decide, with no shortcut)")
		checkPure(c, "T-PURE(Accept)", fn)
	}
	if fn := c.mustFunc("filter", "Selector"); fn != nil {
		ps := pathsOf(c, fn)
		ok := len(ps) == 1
		if ok {
			ok = false
			for _, e := range ps[0].Effects {
				if e.Kind == "store" && e.Addr.K == "faddr" && e.Addr.S == "selector" && e.Val.K == "param" {
					ok = true
				}
			}
		}
		c.check(ok, "T-SHAPE(ctor)", "filter:Selector/stores-selector", c.P.fnPos(fn), "", "filter.Selector does not store its argument")
	}
	if fn := c.mustFunc("filter", "Labels"); fn != nil {
		ps := pathsOf(c, fn)
		ok := len(ps) == 1 && len(ps[0].End.Results) == 1
		if ok {
			a, isSel := isCall(ps[0].End.Results[0], "filter:Selector")
			ok = isSel && len(a) == 1 && a[0].K == "call" && strings.HasSuffix(a[0].S, "labels.SelectorFromSet") && a[0].A[0].K == "param"
		}
		c.check(ok, "T-SHAPE(ctor)", "filter:Labels/Selector(SelectorFromSet(m))", c.P.fnPos(fn), "", "filter.Labels is not Selector(labels.SelectorFromSet(match))")
	}
	if fn := c.mustFunc("filter", "LabelSelector"); fn != nil {
		ps := pathsOf(c, fn)
		ok := false
		for _, pa := range ps {
			if pa.End.Kind == "return" && len(pa.End.Results) == 1 {
				a, isSel := isCall(pa.End.Results[0], "filter:Selector")
				if isSel && len(a) == 1 && a[0].K == "extract" && a[0].S == "0" && a[0].A[0].K == "call" && strings.HasSuffix(a[0].A[0].S, "LabelSelectorAsSelector") && a[0].A[0].A[0].K == "param" {
					ok = true
				} else {
					ok = false
					break
				}
			}
		}
		c.check(ok, "T-SHAPE(ctor)", "filter:LabelSelector/Selector(LabelSelectorAsSelector(ls))", c.P.fnPos(fn), "", "filter.LabelSelector is not Selector(metav1.LabelSelectorAsSelector(ls))")
	}
	// nsname helpers
	if fn := c.mustFunc("nsname", "New"); fn != nil {
		ps := pathsOf(c, fn)
		ok := len(ps) == 1 && len(ps[0].End.Results) == 1
		if ok {
			r := ps[0].End.Results[0]
			ok = r.K == "struct" && len(r.A) == 2 && isParamT(r.A[0], fn.Params[0].Name()) && isParamT(r.A[1], fn.Params[1].Name())
		}
		c.check(ok, "T-SHAPE(ctor)", "nsname:New/(namespace,name)", c.P.fnPos(fn), "", "nsname.New(ns,name) does not build NSName{ns,name}")
	}
	if fn := c.mustFunc("nsname", "ForObject"); fn != nil {
		ps := pathsOf(c, fn)
		ok := len(ps) == 1 && len(ps[0].End.Results) == 1
		if ok {
			a, isNew := isCall(ps[0].End.Results[0], "nsname:New")
			ok = isNew && len(a) == 2 && a[0].K == "invoke" && a[0].S == "GetNamespace" && a[1].K == "invoke" && a[1].S == "GetName" && sameTerm(a[0].A[0], a[1].A[0])
		}
		c.check(ok, "T-SHAPE(ctor)", "nsname:ForObject/(obj.namespace,obj.name)", c.P.fnPos(fn), "", "nsname.ForObject is not New(obj.GetNamespace(), obj.GetName())")
	}
}

func checkNSNameFilter(c *Ctx) {
	rule := "T-SHAPE(Accept)"
	fn := c.mustFunc("filter", "nsNameFilter.Accept")
	if fn == nil {
		return
	}
	checkPure(c, "T-PURE(Accept)", fn)
	pos := c.P.fnPos(fn)
	loops := findLoopsDeep(c.P, fn)
	if len(loops) != 1 {
		c.fail(rule, "filter:nsNameFilter.Accept/single-loop", pos, "expected one loop over the partial entries")
		return
	}
	inl := autoInline(c.P, fn, 60)
	for _, n := range [][2]string{{"nsname", "ForObject"}, {"nsname", "New"}} {
		if f := c.P.Func(n[0], n[1]); f != nil {
			inl[f] = true
		}
	}
	// prelude: fullset hit → true
	pre := (&Walker{P: c.P, Inline: inl}).PreludeRegion(fn, loops[0])
	c.paths += len(pre)
	ok, detail := true, ""
	isKey := func(t *Term) bool {
		// NSName{obj.GetNamespace(), obj.GetName()}
		if t.K != "struct" || len(t.A) != 2 {
			return false
		}
		return t.A[0].K == "invoke" && t.A[0].S == "GetNamespace" && t.A[1].K == "invoke" && t.A[1].S == "GetName"
	}
	hit, miss := false, false
	for _, pa := range pre {
		var in, known bool
		for _, l := range pa.Lits {
			if l.T.K == "lookupok" && l.T.A[0].K == "lookup" && l.T.A[0].A[0].IsField("fullset") && isKey(l.T.A[0].A[1]) {
				in, known = l.Val, true
			} else {
				ok, detail = false, "unexpected condition before the loop: "+l.String()
			}
		}
		if !known {
			ok, detail = false, "no lookup of the object's (namespace,name) in fullset"
			continue
		}
		if in {
			hit = true
			if v, isc := retConst(pa); !isc || v != "true" {
				ok, detail = false, "a full-name hit does not accept"
			}
		} else {
			miss = true
			if pa.End.Kind != "stop" {
				ok, detail = false, "a full-name miss does not go on to the partial entries"
			}
		}
	}
	if !hit || !miss {
		ok, detail = false, "prelude does not branch on the fullset lookup"
	}
	c.check(ok, rule, "filter:nsNameFilter.Accept/fullset-hit-accepts", pos, "", "nsNameFilter.Accept: "+detail)
	// loop over partials
	ps := (&Walker{P: c.P, Inline: inl}).IterRegion(fn, loops[0])
	c.paths += len(ps)
	isEntry := func(t *Term, f string) bool {
		return t.IsField(f) && t.A[0].K == "index" && t.A[0].A[0].IsField("partials")
	}
	isKeyF := func(t *Term, f string) bool {
		// field of the key built from the object: through the alloc'd local or the struct term
		if t.K == "invoke" && (f == "Namespace" && t.S == "GetNamespace" || f == "Name" && t.S == "GetName") {
			return true
		}
		return t.IsField(f) && !isEntry(t, f)
	}
	ts := &tableSpec{
		Rule: rule, Region: "nsNameFilter.Accept, one partial entry",
		Atoms: []atomSpec{{"more", boolDom}, {"nsEmpty", boolDom}, {"nameEmpty", boolDom}, {"nameEq", boolDom}, {"nsEq", boolDom}},
		Lit: func(pa *Path, l Lit) litClass {
			t := l.T
			if t.K == "binop" && t.S == "<" && t.A[1].K == "len" && t.A[1].A[0].IsField("partials") {
				return litClass{Atom: "more", IfTrue: []string{"T"}, OK: true}
			}
			if x, ok := eqConst(t, `""`); ok {
				if isEntry(x, "Namespace") {
					return litClass{Atom: "nsEmpty", IfTrue: []string{"T"}, OK: true}
				}
				if isEntry(x, "Name") {
					return litClass{Atom: "nameEmpty", IfTrue: []string{"T"}, OK: true}
				}
			}
			if t.K == "binop" && t.S == "==" {
				a, b := t.A[0], t.A[1]
				if isEntry(a, "Name") && isKeyF(b, "Name") || isEntry(b, "Name") && isKeyF(a, "Name") {
					return litClass{Atom: "nameEq", IfTrue: []string{"T"}, OK: true}
				}
				if isEntry(a, "Namespace") && isKeyF(b, "Namespace") || isEntry(b, "Namespace") && isKeyF(a, "Namespace") {
					return litClass{Atom: "nsEq", IfTrue: []string{"T"}, OK: true}
				}
			}
			return litClass{}
		},
		Outcome: func(pa *Path) ([]string, string) {
			for _, e := range pa.Effects {
				if !e.IsPure() && e.Kind != "rundefers" {
					return nil, "unexpected effect " + e.String()
				}
			}
			switch pa.End.Kind {
			case "stop":
				return []string{"next-entry"}, ""
			case "return":
				if v, ok := retConst(pa); ok {
					return []string{"return " + v}, ""
				}
				return []string{"return " + pa.End.Results[0].Key()}, ""
			}
			return nil, "path ends in " + pa.End.Kind
		},
		Expected: func(v map[string]string) [][]string {
			T := func(a string) bool { return v[a] == "T" }
			if !T("more") {
				return [][]string{{"return false"}}
			}
			switch {
			case T("nsEmpty") && T("nameEmpty"):
				return nil // both fields empty: outside the contract
			case T("nsEmpty"):
				if T("nameEq") {
					return [][]string{{"return true"}}
				}
			case T("nameEmpty"):
				if T("nsEq") {
					return [][]string{{"return true"}}
				}
			}
			return [][]string{{"next-entry"}}
		},
	}
	c.runTable(ts, "filter:nsNameFilter.Accept", pos, ps)
	// constructor: both fields non-empty → fullset; otherwise → partials
	if cf := c.mustFunc("filter", "NSName"); cf != nil {
		loops := findLoopsDeep(c.P, cf)
		ok, detail := len(loops) == 1, ""
		if ok {
			c.useFn(loops[0].fn())
			cps := (&Walker{P: c.P}).LoopRegion(cf, loops[0])
			c.paths += len(cps)
			for _, pa := range cps {
				var nsE, nsK, nmE, nmK, more bool
				for _, l := range pa.Lits {
					if x, okk := eqConst(l.T, `""`); okk {
						if x.IsField("Namespace") {
							nsE, nsK = l.Val, true
						}
						if x.IsField("Name") {
							nmE, nmK = l.Val, true
						}
					}
					if l.T.K == "binop" && l.T.S == "<" && l.Val {
						more = true
						// the loop runs over the ids it was given
						if !(l.T.A[1].K == "len" && l.T.A[1].A[0].K == "param") {
							ok, detail = false, "the loop does not range over the ids argument"
						}
					}
				}
				if !more {
					continue
				}
				full, part := false, false
				for _, e := range pa.Effects {
					if e.Kind == "mapupdate" && e.Val.Key() == "true" {
						full = true
						if len(e.Args) != 1 || !(e.Args[0].K == "index" && e.Args[0].A[0].K == "param") {
							ok, detail = false, "fullset is not keyed by the ranged id"
						}
					}
					if e.Kind == "append" {
						part = true
						if len(e.Args) != 2 || !(e.Args[1].K == "index" && e.Args[1].A[0].K == "param") {
							ok, detail = false, "what is appended to partials is not the ranged id"
						}
						if e.Args[0].K == "param" || e.Args[0].K == "index" {
							ok, detail = false, "partials is built by appending to the caller's slice"
						}
					}
				}
				bothNonEmpty := nsK && !nsE && nmK && !nmE
				if bothNonEmpty && !(full && !part) {
					ok, detail = false, "an id with both fields set is not stored in fullset"
				}
				if !bothNonEmpty && !(part && !full) {
					ok, detail = false, "an id with an empty field is not stored in partials"
				}
			}
		} else {
			detail = "expected one loop over ids"
		}
		// the filter's own storage is fresh: neither collection aliases the caller's variadic slice
		var scan []*ssa.Function
		for g := range c.P.ownerClosure(cf) { // NSName and the private helpers only it calls
			scan = append(scan, g)
		}
		for _, g := range scan {
			for _, b := range g.Blocks {
				for _, in := range b.Instrs {
					if sl, isSl := in.(*ssa.Slice); isSl {
						if pv, fromParam := sl.X.(*ssa.Parameter); fromParam {
							if _, isSlice := pv.Type().Underlying().(*types.Slice); !isSlice {
								continue
							}
							ok, detail = false, "the filter's entry list is built by re-slicing the caller's argument slice: later changes of that slice (or a second filter built from it) change what this filter accepts"
						}
					}
				}
			}
		}
		// the partials stored in the returned filter are the list built by the loop, not an argument
		for _, g := range scan {
			for _, b := range g.Blocks {
				for _, in := range b.Instrs {
					var stored ssa.Value
					switch x := in.(type) {
					case *ssa.Store:
						if fa, isFA := x.Addr.(*ssa.FieldAddr); isFA && structFieldName(fa.X.Type(), fa.Field) == "partials" {
							stored = x.Val
						}
					}
					if stored != nil && !freshSliceOrigin(stored, map[ssa.Value]bool{}) {
						ok, detail = false, "the filter's partials field is not the list built from the ids (it is, or extends, a slice the caller owns)"
					}
				}
			}
		}
		c.check(ok, "T-SHAPE(ctor)", "filter:NSName/full-vs-partial-routing", c.P.fnPos(cf), "", "filter.NSName: "+detail)
	}
}

// ---------- C17 ----------

// comparableFilters enumerates named types of the repository whose method
// set has Accept(metav1.Object) bool and Equals(filter.Filter) bool.
type cmpFilter struct {
	rel    string
	typ    *types.Named
	ptr    bool
	accept *ssa.Function
	equals *ssa.Function
}

func comparableFilters(c *Ctx) []cmpFilter {
	var out []cmpFilter
	for _, rel := range c.P.repoRels() {
		sp := c.P.Pkg(rel)
		if sp == nil {
			continue
		}
		for _, m := range sp.Members {
			t, ok := m.(*ssa.Type)
			if !ok {
				continue
			}
			n, ok := t.Type().(*types.Named)
			if !ok {
				continue
			}
			if _, isIface := n.Underlying().(*types.Interface); isIface {
				continue
			}
			for _, ptr := range []bool{false, true} {
				var T types.Type = n
				if ptr {
					T = types.NewPointer(n)
				}
				ms := c.P.SSA.MethodSets.MethodSet(T)
				var acc, eq *ssa.Function
				for i := 0; i < ms.Len(); i++ {
					sel := ms.At(i)
					switch sel.Obj().Name() {
					case "Accept":
						acc = c.P.SSA.MethodValue(sel)
					case "Equals":
						eq = c.P.SSA.MethodValue(sel)
					}
				}
				if acc != nil && eq != nil {
					// unwrap pointer-receiver wrappers
					unwrap := func(f *ssa.Function) *ssa.Function {
						if f.Synthetic != "" {
							if g := c.P.SSA.LookupMethod(n, sp.Pkg, f.Name()); g != nil && g.Synthetic == "" {
								return g
							}
						}
						return f
					}
					acc, eq = unwrap(acc), unwrap(eq)
					// a type that declares its own Equals but inherits Accept from an embedded filter
					// (a wrapper) is judged too: its Equals must still cover what the promoted Accept reads
					if eq.Synthetic != "" || acc.Synthetic != "" && acc.Blocks == nil {
						continue
					}
					sig := eq.Signature
					if sig.Params().Len() != 1 || sig.Results().Len() != 1 {
						continue
					}
					out = append(out, cmpFilter{rel, n, ptr, acc, eq})
					break
				}
			}
		}
	}
	sort.Slice(out, func(i, j int) bool { return fnName(out[i].equals) < fnName(out[j].equals) })
	return out
}

// receiverReads: which parts of the receiver a function reads: field names, or "*" for the whole value.
func receiverReads(c *Ctx, fn *ssa.Function) map[string]bool {
	reads := map[string]bool{}
	if len(fn.Params) == 0 {
		return reads
	}
	recv := fn.Params[0]
	var visit func(v ssa.Value, depth int)
	visit = func(v ssa.Value, depth int) {
		if v.Referrers() == nil || depth > 6 {
			return
		}
		for _, r := range *v.Referrers() {
			switch x := r.(type) {
			case *ssa.FieldAddr:
				reads[structFieldName(x.X.Type(), x.Field)] = true
			case *ssa.Field:
				reads[structFieldName(x.X.Type(), x.Field)] = true
			case *ssa.Store:
				// value receiver spilled to a local: follow the alloc
				if x.Val == v {
					if al, ok := x.Addr.(*ssa.Alloc); ok {
						visit(al, depth+1)
					}
				}
			case *ssa.UnOp:
				visit(x, depth+1)
			case *ssa.DebugRef:
			case *ssa.ChangeType, *ssa.MakeInterface:
				reads["*"] = true
			case *ssa.Call:
				// handed to a same-package helper (`f.matches(set)`): what the helper reads of it
				g := x.Call.StaticCallee()
				if g == nil || g.Blocks == nil || g.Pkg != fn.Pkg || x.Call.IsInvoke() {
					reads["*"] = true
					break
				}
				for i, a := range x.Call.Args {
					if a == v && i < len(g.Params) {
						visit(g.Params[i], depth+1)
					}
				}
			default:
				reads["*"] = true
			}
		}
	}
	visit(recv, 0)
	return reads
}

var trustedDeep = map[string]string{
	"reflect.DeepEqual":                     "deep structural equality including dynamic types",
	"k8s.io/apimachinery/pkg/labels.Equals": "map[string]string equality",
}

// trustedMapEq: a repository function proved (isMapEqualityFn) to return true only
// for equal maps is trusted like labels.Equals.
func trustedMapEq(c *Ctx, fn *ssa.Function) bool {
	if fn == nil || fn.Blocks == nil {
		return false
	}
	ok, _ := isMapEqualityFn(fn)
	if ok {
		c.useFn(fn)
	}
	return ok
}

func checkFilterEquality(c *Ctx) {
	rule := "T-COVERS(Equals)"
	fs := comparableFilters(c)
	c.check(len(fs) >= 10, rule, "ComparableFilter/implementors", "-", fmt.Sprintf("%d comparable filter types", len(fs)), fmt.Sprintf("found %d comparable filter types, hand-confirmed 10", len(fs)))
	for _, f := range fs {
		c.useFn(f.accept)
		c.useFn(f.equals)
		name := fnName(f.equals)
		pos := c.P.fnPos(f.equals)
		own := typeStr(f.typ)
		if f.ptr {
			own = "*" + own
		}
		recvName, otherName := f.equals.Params[0].Name(), f.equals.Params[1].Name()
		reads := receiverReads(c, f.accept)
		st, isStruct := f.typ.Underlying().(*types.Struct)
		allFields := map[string]bool{}
		if isStruct {
			for i := 0; i < st.NumFields(); i++ {
				allFields[st.Field(i).Name()] = true
			}
		}
		ps := pathsOf(c, f.equals)
		// analyse every path that can return true
		bad := ""
		covered := map[string]bool{}
		first := true
		trueReturns := 0
		for _, pa := range ps {
			if pa.End.Kind != "return" || len(pa.End.Results) != 1 {
				if pa.End.Kind == "cycle" {
					bad = "Equals contains a loop; compare collections with a trusted comparator (reflect.DeepEqual, labels.Equals, compareFilterList)"
				}
				continue
			}
			res := pa.End.Results[0]
			if res.K == "const" && res.S == "false" {
				continue
			}
			trueReturns++
			// own-type assertion on this path?
			asserted := false
			var otherT *Term
			for _, l := range pa.Lits {
				if l.T.K == "assertok" && isParamT(l.T.A[0], otherName) && l.Val {
					if l.T.S == own {
						asserted = true
						otherT = &Term{K: "typeassert", S: own, A: []*Term{l.T.A[0]}}
					} else {
						bad = "Equals asserts `other` to " + l.T.S + " instead of its own type " + own + ": filters of different types would compare equal"
					}
				}
			}
			// comparisons: the return value and the true literals
			var cmps []*Term
			cmps = append(cmps, res)
			for _, l := range pa.Lits {
				if l.Val && l.T.K != "assertok" {
					cmps = append(cmps, l.T)
				}
			}
			pc := map[string]bool{}
			wholeDeep := false
			for _, t := range cmps {
				switch {
				case t.K == "const" && t.S == "true":
				case t.K == "assertok" && t.S == own && isParamT(t.A[0], otherName):
					asserted = true
				case t.K == "call" && len(t.A) == 2 && (trustedDeep[t.S] != "" || trustedMapEq(c, t.Fn)):
					a, b := t.A[0], t.A[1]
					if isParamT(a, recvName) && isParamT(b, otherName) || isParamT(b, recvName) && isParamT(a, otherName) {
						wholeDeep = true // DeepEqual(f, other): dynamic types compared too
						continue
					}
					if otherT != nil && (isParamT(a, recvName) && sameTerm(b, otherT) || isParamT(b, recvName) && sameTerm(a, otherT)) {
						pc["*"] = true
						continue
					}
					fa, fb := fieldOf(a, recvName), fieldOfOther(b, otherT)
					if fa == "" || fb == "" {
						fa, fb = fieldOf(b, recvName), fieldOfOther(a, otherT)
					}
					if fa != "" && fa == fb {
						pc[fa] = true
					} else {
						bad = "deep comparison of " + a.Key() + " with " + b.Key() + " does not pair the same field of receiver and other"
					}
				case t.K == "invoke" && t.S == "Equals" && len(t.A) == 2:
					// the child is used as a ComparableFilter only where the comma-ok assertion succeeded
					if t.A[0].K == "typeassert" {
						okLit := false
						for _, l := range pa.Lits {
							if l.T.K == "assertok" && l.T.S == t.A[0].S && sameTerm(l.T.A[0], t.A[0].A[0]) && l.Val {
								okLit = true
							}
						}
						if !okLit {
							bad = "child.Equals is invoked on a path where the child was not found to be comparable (nil interface call)"
						}
					}
					fa, fb := fieldOf(stripAssert(t.A[0]), recvName), fieldOfOther(stripAssert(t.A[1]), otherT)
					if fa != "" && fa == fb {
						pc[fa] = true
					} else {
						bad = "child comparison does not pair the same field of receiver and other: " + t.Key()
					}
				case t.K == "call" && t.S == "filter:compareFilterList" && len(t.A) == 2:
					if isParamT(t.A[0], recvName) && otherT != nil && sameTerm(t.A[1], otherT) {
						pc["*"] = true
					} else {
						bad = "compareFilterList is not applied to (receiver, asserted other)"
					}
				case t.K == "binop" && t.S == "==" && t.A[0].K == "len" && t.A[1].K == "len":
					// a length pre-check neither covers nor harms
				case t.K == "binop" && t.S == "==":
					a, b := t.A[0], t.A[1]
					// *f == *other
					if a.K == "load" && b.K == "load" {
						x, y := a.A[0], b.A[0]
						if isParamT(x, recvName) && otherT != nil && sameTerm(y, otherT) || isParamT(y, recvName) && otherT != nil && sameTerm(x, otherT) {
							pc["*"] = true
							continue
						}
					}
					fa, fb := fieldOf(a, recvName), fieldOfOther(b, otherT)
					if fa == "" || fb == "" {
						fa, fb = fieldOf(b, recvName), fieldOfOther(a, otherT)
					}
					if fa != "" && fa == fb {
						// == on the field is sound only for comparable scalar types
						if isStruct {
							for i := 0; i < st.NumFields(); i++ {
								if st.Field(i).Name() == fa {
									if _, basic := st.Field(i).Type().Underlying().(*types.Basic); basic {
										pc[fa] = true
									} else {
										bad = "field " + fa + " is compared with == although it is not a scalar"
									}
								}
							}
						}
					} else {
						bad = "equality is decided by " + t.Key() + ", which is not a comparison of the same field of receiver and other with a trusted comparator (rendering to strings, lengths or hashes can collide)"
					}
				case t.K == "assertok":
					// comma-ok on a child being comparable: not a comparison
				default:
					bad = "equality depends on " + t.Key() + ", which is not a trusted comparison of receiver state with the other filter's state"
				}
			}
			if !asserted && !wholeDeep {
				bad = "Equals can return true without asserting `other` to its own type " + own
			}
			if wholeDeep {
				pc["*"] = true
			}
			if first {
				covered, first = pc, false
			} else {
				for k := range covered {
					if !pc[k] {
						delete(covered, k)
					}
				}
			}
		}
		if trueReturns == 0 {
			bad = "Equals never returns true"
		}
		var missing []string
		if !covered["*"] {
			for r := range reads {
				if r == "*" {
					if len(allFields) > 0 || !isStruct {
						missing = append(missing, "the whole receiver")
					}
					continue
				}
				if !covered[r] {
					missing = append(missing, r)
				}
			}
		}
		sort.Strings(missing)
		if bad == "" && len(missing) > 0 {
			bad = fmt.Sprintf("Accept reads %v of the receiver but Equals does not compare it: two filters that accept different objects would compare equal", missing)
		}
		var rs []string
		for r := range reads {
			rs = append(rs, r)
		}
		sort.Strings(rs)
		c.check(bad == "", rule, name+"/own-type-and-covers-Accept's-reads", pos, fmt.Sprintf("Accept reads %v; all compared", rs), name+": "+bad)
		checkPure(c, "T-PURE(Accept)", f.accept)
	}
	checkFiltersEqualFn(c)
	checkCompareFilterList(c)
}

func stripAssert(t *Term) *Term {
	if t != nil && t.K == "typeassert" && strings.HasSuffix(t.S, "ComparableFilter") {
		return t.A[0]
	}
	return t
}

// fieldOf: t is recv.<F> → F
func fieldOf(t *Term, recvName string) string {
	if t != nil && t.K == "field" && isParamT(t.A[0], recvName) {
		return t.S
	}
	return ""
}

// fieldOfOther: t is assertedOther.<F> → F
func fieldOfOther(t *Term, otherT *Term) string {
	if t != nil && t.K == "field" && otherT != nil && sameTerm(t.A[0], otherT) {
		return t.S
	}
	return ""
}

func checkFiltersEqualFn(c *Ctx) {
	fn := c.mustFunc("filter", "FiltersEqual")
	if fn == nil {
		return
	}
	rule := "T-TABLE(FiltersEqual)"
	ps := pathsOf(c, fn)
	a, b := fn.Params[0].Name(), fn.Params[1].Name()
	ts := &tableSpec{
		Rule: rule, Region: "FiltersEqual",
		Atoms: []atomSpec{{"nil1", boolDom}, {"nil2", boolDom}, {"comparable1", boolDom}},
		Lit: func(pa *Path, l Lit) litClass {
			if x, ok := isNilTest(l.T); ok {
				if isParamT(x, a) {
					return litClass{Atom: "nil1", IfTrue: []string{"T"}, OK: true}
				}
				if isParamT(x, b) {
					return litClass{Atom: "nil2", IfTrue: []string{"T"}, OK: true}
				}
			}
			if l.T.K == "assertok" && strings.HasSuffix(l.T.S, "ComparableFilter") && isParamT(l.T.A[0], a) {
				return litClass{Atom: "comparable1", IfTrue: []string{"T"}, OK: true}
			}
			return litClass{}
		},
		Outcome: func(pa *Path) ([]string, string) {
			if len(pa.End.Results) != 1 {
				return nil, "shape"
			}
			r := pa.End.Results[0]
			if r.K == "const" {
				return []string{r.S}, ""
			}
			if r.K == "invoke" && r.S == "Equals" && len(r.A) == 2 && isParamT(stripAssert(r.A[0]), a) && isParamT(r.A[1], b) {
				return []string{"f1.Equals(f2)"}, ""
			}
			return []string{"OTHER:" + r.Key()}, ""
		},
		Expected: func(v map[string]string) [][]string {
			switch {
			case v["nil1"] == "T" && v["nil2"] == "T":
				return [][]string{{"true"}}
			case v["nil1"] == "T" || v["nil2"] == "T":
				return [][]string{{"false"}}
			case v["comparable1"] == "T":
				return [][]string{{"f1.Equals(f2)"}}
			}
			return [][]string{{"false"}}
		},
	}
	c.runTable(ts, "filter:FiltersEqual", c.P.fnPos(fn), ps)
}

func checkCompareFilterList(c *Ctx) {
	fn := c.mustFunc("filter", "compareFilterList")
	if fn == nil {
		return
	}
	rule := "T-TABLE(compareFilterList)"
	pos := c.P.fnPos(fn)
	loops := findLoopsDeep(c.P, fn)
	if len(loops) != 1 {
		c.fail(rule, "filter:compareFilterList/single-loop", pos, "expected one loop over the indices")
		return
	}
	c.useFn(loops[0].fn())
	a, b := fn.Params[0].Name(), fn.Params[1].Name()
	// prelude: lengths differ → false
	pre := (&Walker{P: c.P}).PreludeRegion(fn, loops[0])
	c.paths += len(pre)
	ok, detail := true, ""
	sawLen := false
	for _, pa := range pre {
		var eq, known bool
		for _, l := range pa.Lits {
			t := l.T
			if t.K == "binop" && t.S == "==" && t.A[0].K == "len" && t.A[1].K == "len" {
				x, y := t.A[0].A[0], t.A[1].A[0]
				if isParamT(x, a) && isParamT(y, b) || isParamT(x, b) && isParamT(y, a) {
					eq, known = l.Val, true
				}
			}
		}
		if !known {
			ok, detail = false, "lengths are not compared before the loop"
			continue
		}
		sawLen = true
		if !eq {
			if v, isc := retConst(pa); !isc || v != "false" {
				ok, detail = false, "different lengths do not yield false"
			}
		} else if pa.End.Kind != "stop" {
			ok, detail = false, "equal lengths do not go on to the element comparison"
		}
	}
	c.check(ok && sawLen, rule, "filter:compareFilterList/length-check", pos, "", "compareFilterList: "+detail)
	ps := (&Walker{P: c.P}).IterRegion(fn, loops[0])
	c.paths += len(ps)
	isElem := func(t *Term, p string) bool { return t.K == "index" && isParamT(t.A[0], p) }
	ts := &tableSpec{
		Rule: rule, Region: "compareFilterList, one index",
		Atoms: []atomSpec{{"more", boolDom}, {"cmpA", boolDom}, {"cmpB", boolDom}, {"eq", boolDom}},
		Lit: func(pa *Path, l Lit) litClass {
			t := l.T
			if t.K == "binop" && t.S == "<" && t.A[1].K == "len" {
				return litClass{Atom: "more", IfTrue: []string{"T"}, OK: true}
			}
			if t.K == "assertok" && strings.HasSuffix(t.S, "ComparableFilter") {
				if isElem(t.A[0], a) {
					return litClass{Atom: "cmpA", IfTrue: []string{"T"}, OK: true}
				}
				if isElem(t.A[0], b) {
					return litClass{Atom: "cmpB", IfTrue: []string{"T"}, OK: true}
				}
			}
			if t.K == "invoke" && t.S == "Equals" && len(t.A) == 2 {
				x, y := stripAssert(t.A[0]), stripAssert(t.A[1])
				if isElem(x, a) && isElem(y, b) && sameTerm(x.A[1], y.A[1]) || isElem(x, b) && isElem(y, a) && sameTerm(x.A[1], y.A[1]) {
					return litClass{Atom: "eq", IfTrue: []string{"T"}, OK: true}
				}
			}
			return litClass{}
		},
		Outcome: func(pa *Path) ([]string, string) {
			switch pa.End.Kind {
			case "stop":
				// loop-carried state other than the index must not exist (an accumulator overwritten per element loses earlier mismatches)
				for name, v := range pa.PhiNext {
					if name != "rangeindex" && !(v.K == "phi" && v.S == name) {
						return []string{"next-index", "accumulator " + name + " := " + v.Key()}, ""
					}
				}
				return []string{"next-index"}, ""
			case "return":
				if v, ok := retConst(pa); ok {
					return []string{"return " + v}, ""
				}
				return []string{"return " + pa.End.Results[0].Key()}, ""
			}
			return nil, "path ends in " + pa.End.Kind
		},
		Expected: func(v map[string]string) [][]string {
			if v["more"] == "F" {
				return [][]string{{"return true"}}
			}
			if v["cmpA"] == "F" || v["cmpB"] == "F" || v["eq"] == "F" {
				return [][]string{{"return false"}}
			}
			return [][]string{{"next-index"}}
		},
	}
	c.runTable(ts, "filter:compareFilterList", pos, ps)
}

// checkAcceptPurity: every Accept in the repository (combinators and typed
// filters) is free of stores to shared memory, map updates, channel
// operations and goroutines: filters are shared between the cache goroutines
// of every subscription they were given to.
func checkAcceptPurity(c *Ctx) {
	n := 0
	for _, rel := range c.P.repoRels() {
		for _, f := range c.P.SrcFuncs(rel) {
			if f.Name() != "Accept" || f.Signature.Recv() == nil || f.Parent() != nil {
				continue
			}
			if typeNameOf(f.Signature.Recv().Type()) == "fnFilter" {
				continue // the user's function
			}
			n++
			c.useFn(f)
			checkPure(c, "T-PURE(Accept)", f)
		}
	}
	c.check(n >= 10, "T-PURE(Accept)", "Accept/methods-found", "-", fmt.Sprintf("%d Accept methods", n), fmt.Sprintf("found %d Accept methods, hand-confirmed 10", n))
}

// freshSliceOrigin: v is nil, a made slice, or the result of appends/phis over such a value
// (never a parameter, a field or a re-slice of one).
func freshSliceOrigin(v ssa.Value, seen map[ssa.Value]bool) bool {
	if seen[v] {
		return true
	}
	seen[v] = true
	switch x := v.(type) {
	case *ssa.Const:
		return x.Value == nil
	case *ssa.MakeSlice:
		return true
	case *ssa.Phi:
		for _, e := range x.Edges {
			if !freshSliceOrigin(e, seen) {
				return false
			}
		}
		return true
	case *ssa.Call:
		if bi, ok := x.Call.Value.(*ssa.Builtin); ok && bi.Name() == "append" {
			return freshSliceOrigin(x.Call.Args[0], seen)
		}
		if g := x.Call.StaticCallee(); g != nil && g.Blocks != nil && g.Pkg == x.Parent().Pkg {
			return helperResultFresh(g, 0, seen)
		}
	case *ssa.Extract:
		if call, ok := x.Tuple.(*ssa.Call); ok {
			if g := call.Call.StaticCallee(); g != nil && g.Blocks != nil && g.Pkg == x.Parent().Pkg {
				return helperResultFresh(g, x.Index, seen)
			}
		}
	case *ssa.UnOp:
		if x.Op == token.MUL {
			if a, ok := x.X.(*ssa.Alloc); ok {
				all := true
				n := 0
				for _, r := range *a.Referrers() {
					if st, ok := r.(*ssa.Store); ok && st.Addr == a {
						n++
						if !freshSliceOrigin(st.Val, seen) {
							all = false
						}
					}
				}
				return all && n > 0
			}
		}
	}
	return false
}

func helperResultFresh(g *ssa.Function, k int, seen map[ssa.Value]bool) bool {
	n := 0
	for _, b := range g.Blocks {
		if r, ok := b.Instrs[len(b.Instrs)-1].(*ssa.Return); ok {
			n++
			if k >= len(r.Results) || !freshSliceOrigin(r.Results[k], seen) {
				return false
			}
		}
	}
	return n > 0
}

// kmutate: first-order mutant generator for the checker's own adequacy audit
// (never part of a registered check).  Writes one mutated copy of a source
// file per mutant into an output directory, plus an index.json describing
// each mutant (file, line, operator, original/new text).
package main

import (
	"go/types"

	"golang.org/x/tools/go/packages"

	"bytes"
	"encoding/json"
	"flag"
	"fmt"
	"go/ast"
	"go/format"
	"go/parser"
	"go/token"
	"os"
	"path/filepath"
	"strings"
)

type Mutant struct {
	ID   int    `json:"id"`
	File string `json:"file"`
	Line int    `json:"line"`
	Func string `json:"func"`
	Op   string `json:"op"`
	Desc string `json:"desc"`
	Path string `json:"path"`
}

var relOps = map[token.Token][]token.Token{
	token.LSS:  {token.LEQ, token.GTR},
	token.LEQ:  {token.LSS},
	token.GTR:  {token.GEQ, token.LSS},
	token.GEQ:  {token.GTR},
	token.EQL:  {token.NEQ},
	token.NEQ:  {token.EQL},
	token.LAND: {token.LOR},
	token.LOR:  {token.LAND},
}

func main() {
	out := flag.String("out", "/tmp/kmutants", "output directory")
	repo := flag.String("repo", "/repo", "repository")
	flag.IntVar(&opSet, "set", 1, "operator set: 1 = first-order classics, 2 = statement swaps, shadowing, sibling fields, literals, nil-outs, dropped arms/else")
	flag.Parse()
	os.MkdirAll(*out, 0o755)
	if opSet == 3 {
		identSubst(*repo, *out, flag.Args())
		return
	}
	var all []Mutant
	seen := map[string]bool{}
	id := 0
	for _, rel := range flag.Args() {
		path := filepath.Join(*repo, rel)
		src, err := os.ReadFile(path)
		if err != nil {
			fmt.Fprintln(os.Stderr, err)
			continue
		}
		// enumerate mutation points on a fresh parse each time (apply i-th point)
		count := countPoints(src, path)
		for i := 0; i < count; i++ {
			fset := token.NewFileSet()
			f, err := parser.ParseFile(fset, path, src, parser.ParseComments)
			if err != nil {
				break
			}
			m := applyPoint(fset, f, i)
			if m == nil {
				continue
			}
			var buf bytes.Buffer
			if err := format.Node(&buf, fset, f); err != nil {
				continue
			}
			if bytes.Equal(buf.Bytes(), src) {
				continue
			}
			if seen[rel+"\x00"+buf.String()] {
				continue
			}
			seen[rel+"\x00"+buf.String()] = true
			id++
			m.ID = id
			m.File = rel
			m.Path = filepath.Join(*out, fmt.Sprintf("m%04d_%s", id, strings.ReplaceAll(rel, "/", "_")))
			os.WriteFile(m.Path, buf.Bytes(), 0o644)
			all = append(all, *m)
		}
	}
	data, _ := json.MarshalIndent(all, "", " ")
	os.WriteFile(filepath.Join(*out, "index.json"), data, 0o644)
	fmt.Printf("%d mutants written to %s\n", len(all), *out)
}

var opSet = 1

type point struct {
	apply func() *Mutant
}

func collect(fset *token.FileSet, f *ast.File) []point {
	if opSet == 2 {
		return collect2(fset, f)
	}
	var pts []point
	var curFn string
	line := func(p token.Pos) int { return fset.Position(p).Line }
	isLogCall := func(e ast.Expr) bool {
		c, ok := e.(*ast.CallExpr)
		if !ok {
			return false
		}
		var b bytes.Buffer
		format.Node(&b, fset, c.Fun)
		s := b.String()
		return strings.Contains(s, ".log.") || strings.HasPrefix(s, "log.") || strings.Contains(s, "Debugf") || strings.Contains(s, "Warnf") || strings.Contains(s, "Errorf") || strings.Contains(s, "ErrWarn")
	}
	var visitBlock func(list *[]ast.Stmt)
	visitBlock = func(list *[]ast.Stmt) {
		for i := range *list {
			i := i
			st := (*list)[i]
			switch s := st.(type) {
			case *ast.ExprStmt:
				if isLogCall(s.X) {
					continue
				}
				fn := curFn
				// delete call statement
				pts = append(pts, point{func() *Mutant {
					var b bytes.Buffer
					format.Node(&b, fset, s)
					l := line(s.Pos())
					*list = append((*list)[:i:i], (*list)[i+1:]...)
					return &Mutant{Line: l, Func: fn, Op: "delete-call", Desc: "delete `" + trunc(b.String()) + "`"}
				}})
				// go insertion
				if call, ok := s.X.(*ast.CallExpr); ok {
					pts = append(pts, point{func() *Mutant {
						var b bytes.Buffer
						format.Node(&b, fset, s)
						l := line(s.Pos())
						(*list)[i] = &ast.GoStmt{Go: s.Pos(), Call: call}
						return &Mutant{Line: l, Func: fn, Op: "insert-go", Desc: "go `" + trunc(b.String()) + "`"}
					}})
				}
			case *ast.AssignStmt:
				fn := curFn
				if s.Tok == token.ASSIGN {
					pts = append(pts, point{func() *Mutant {
						var b bytes.Buffer
						format.Node(&b, fset, s)
						l := line(s.Pos())
						*list = append((*list)[:i:i], (*list)[i+1:]...)
						return &Mutant{Line: l, Func: fn, Op: "delete-assign", Desc: "delete `" + trunc(b.String()) + "`"}
					}})
				}
			case *ast.SendStmt:
				fn := curFn
				pts = append(pts, point{func() *Mutant {
					var b bytes.Buffer
					format.Node(&b, fset, s)
					l := line(s.Pos())
					*list = append((*list)[:i:i], (*list)[i+1:]...)
					return &Mutant{Line: l, Func: fn, Op: "delete-send", Desc: "delete `" + trunc(b.String()) + "`"}
				}})
			case *ast.BranchStmt:
				fn := curFn
				if s.Tok == token.CONTINUE || s.Tok == token.BREAK {
					pts = append(pts, point{func() *Mutant {
						l := line(s.Pos())
						lbl := ""
						if s.Label != nil {
							lbl = " " + s.Label.Name
						}
						*list = append((*list)[:i:i], (*list)[i+1:]...)
						return &Mutant{Line: l, Func: fn, Op: "delete-branch", Desc: "delete `" + s.Tok.String() + lbl + "`"}
					}})
				}
			case *ast.GoStmt:
				fn := curFn
				pts = append(pts, point{func() *Mutant {
					l := line(s.Pos())
					(*list)[i] = &ast.ExprStmt{X: s.Call}
					return &Mutant{Line: l, Func: fn, Op: "remove-go", Desc: "call synchronously instead of go"}
				}})
			case *ast.DeferStmt:
				fn := curFn
				pts = append(pts, point{func() *Mutant {
					var b bytes.Buffer
					format.Node(&b, fset, s)
					l := line(s.Pos())
					*list = append((*list)[:i:i], (*list)[i+1:]...)
					return &Mutant{Line: l, Func: fn, Op: "delete-defer", Desc: "delete `" + trunc(b.String()) + "`"}
				}})
			}
		}
	}
	ast.Inspect(f, func(n ast.Node) bool {
		switch x := n.(type) {
		case *ast.FuncDecl:
			curFn = x.Name.Name
			if x.Recv != nil && len(x.Recv.List) > 0 {
				var b bytes.Buffer
				format.Node(&b, fset, x.Recv.List[0].Type)
				curFn = strings.TrimPrefix(b.String(), "*") + "." + x.Name.Name
			}
		case *ast.BlockStmt:
			visitBlock(&x.List)
		case *ast.CaseClause:
			visitBlock(&x.Body)
		case *ast.CommClause:
			visitBlock(&x.Body)
			if x.Comm == nil { // default: of a select → remove it (send becomes blocking)
				// handled at SelectStmt level
			}
		case *ast.SelectStmt:
			fn := curFn
			for i, cl := range x.Body.List {
				i := i
				cc := cl.(*ast.CommClause)
				if cc.Comm == nil {
					pts = append(pts, point{func() *Mutant {
						l := line(cc.Pos())
						x.Body.List = append(x.Body.List[:i:i], x.Body.List[i+1:]...)
						return &Mutant{Line: l, Func: fn, Op: "remove-default", Desc: "remove `default:` of select (blocking)"}
					}})
				}
			}
		case *ast.BinaryExpr:
			fn := curFn
			for _, alt := range relOps[x.Op] {
				alt := alt
				pts = append(pts, point{func() *Mutant {
					var b bytes.Buffer
					format.Node(&b, fset, x)
					l := line(x.Pos())
					old := x.Op
					x.Op = alt
					return &Mutant{Line: l, Func: fn, Op: "relop", Desc: "`" + trunc(b.String()) + "`: " + old.String() + " → " + alt.String()}
				}})
			}
		case *ast.IfStmt:
			fn := curFn
			pts = append(pts, point{func() *Mutant {
				var b bytes.Buffer
				format.Node(&b, fset, x.Cond)
				l := line(x.Pos())
				x.Cond = &ast.UnaryExpr{Op: token.NOT, X: &ast.ParenExpr{X: x.Cond}}
				return &Mutant{Line: l, Func: fn, Op: "negate-if", Desc: "negate `if " + trunc(b.String()) + "`"}
			}})
		case *ast.UnaryExpr:
			if x.Op == token.NOT {
				fn := curFn
				pts = append(pts, point{func() *Mutant {
					var b bytes.Buffer
					format.Node(&b, fset, x)
					l := line(x.Pos())
					x.Op = token.ADD // +x is invalid for bool; instead wrap: replace by double negation removal below
					return &Mutant{Line: l, Func: fn, Op: "drop-not-INVALID", Desc: trunc(b.String())}
				}})
			}
		case *ast.Ident:
			if x.Name == "true" || x.Name == "false" {
				fn := curFn
				pts = append(pts, point{func() *Mutant {
					l := line(x.Pos())
					old := x.Name
					if old == "true" {
						x.Name = "false"
					} else {
						x.Name = "true"
					}
					return &Mutant{Line: l, Func: fn, Op: "bool-const", Desc: old + " → " + x.Name}
				}})
			}
		case *ast.CallExpr:
			// swap two adjacent arguments (type checker filters the ill-typed ones)
			fn := curFn
			if !isLogCall(x) && len(x.Args) >= 2 {
				for i := 0; i+1 < len(x.Args); i++ {
					i := i
					pts = append(pts, point{func() *Mutant {
						var b bytes.Buffer
						format.Node(&b, fset, x)
						l := line(x.Pos())
						x.Args[i], x.Args[i+1] = x.Args[i+1], x.Args[i]
						return &Mutant{Line: l, Func: fn, Op: "swap-args", Desc: "swap args " + fmt.Sprint(i) + "," + fmt.Sprint(i+1) + " of `" + trunc(b.String()) + "`"}
					}})
				}
			}
		case *ast.CompositeLit:
			// swap two adjacent positional elements
			fn := curFn
			if len(x.Elts) >= 2 {
				if _, kv := x.Elts[0].(*ast.KeyValueExpr); !kv {
					for i := 0; i+1 < len(x.Elts); i++ {
						i := i
						pts = append(pts, point{func() *Mutant {
							var b bytes.Buffer
							format.Node(&b, fset, x)
							l := line(x.Pos())
							x.Elts[i], x.Elts[i+1] = x.Elts[i+1], x.Elts[i]
							return &Mutant{Line: l, Func: fn, Op: "swap-elts", Desc: "swap elements of `" + trunc(b.String()) + "`"}
						}})
					}
				}
			}
		}
		return true
	})
	return pts
}

func countPoints(src []byte, path string) int {
	fset := token.NewFileSet()
	f, err := parser.ParseFile(fset, path, src, parser.ParseComments)
	if err != nil {
		return 0
	}
	return len(collect(fset, f))
}

func applyPoint(fset *token.FileSet, f *ast.File, i int) *Mutant {
	pts := collect(fset, f)
	if i >= len(pts) {
		return nil
	}
	m := pts[i].apply()
	if m != nil && strings.HasSuffix(m.Op, "INVALID") {
		return nil
	}
	return m
}

func trunc(s string) string {
	s = strings.Join(strings.Fields(s), " ")
	if len(s) > 70 {
		return s[:70] + "…"
	}
	return s
}

// collect2: the second operator set.
func collect2(fset *token.FileSet, f *ast.File) []point {
	var pts []point
	var curFn string
	line := func(p token.Pos) int { return fset.Position(p).Line }
	text := func(n ast.Node) string {
		var b bytes.Buffer
		format.Node(&b, fset, n)
		return trunc(b.String())
	}
	isLog := func(n ast.Node) bool {
		s := text(n)
		return strings.Contains(s, ".log.") || strings.HasPrefix(s, "log.") || strings.Contains(s, "Debugf(") || strings.Contains(s, "Warnf(") || strings.Contains(s, "Errorf(") || strings.Contains(s, "Infof(")
	}
	simple := func(st ast.Stmt) bool {
		switch st.(type) {
		case *ast.ExprStmt, *ast.AssignStmt, *ast.SendStmt, *ast.IncDecStmt, *ast.GoStmt, *ast.DeferStmt:
			return !isLog(st)
		}
		return false
	}
	// sibling fields: struct fields of the file grouped by type text
	sib := map[string][]string{} // field -> other fields of identical type in the same struct
	ast.Inspect(f, func(n ast.Node) bool {
		st, ok := n.(*ast.StructType)
		if !ok {
			return true
		}
		byType := map[string][]string{}
		for _, fl := range st.Fields.List {
			t := text(fl.Type)
			for _, nm := range fl.Names {
				byType[t] = append(byType[t], nm.Name)
			}
		}
		for _, names := range byType {
			if len(names) < 2 {
				continue
			}
			for _, a := range names {
				for _, b := range names {
					if a != b {
						sib[a] = append(sib[a], b)
					}
				}
			}
		}
		return true
	})
	depth := 0
	var visitBlock func(list *[]ast.Stmt, nested bool)
	visitBlock = func(list *[]ast.Stmt, nested bool) {
		for i := range *list {
			i := i
			st := (*list)[i]
			fn := curFn
			if i+1 < len(*list) && simple(st) && simple((*list)[i+1]) {
				pts = append(pts, point{func() *Mutant {
					l := line(st.Pos())
					d := "swap `" + text(st) + "` with the next statement"
					(*list)[i], (*list)[i+1] = (*list)[i+1], (*list)[i]
					return &Mutant{Line: l, Func: fn, Op: "swap-stmts", Desc: d}
				}})
			}
			switch s := st.(type) {
			case *ast.AssignStmt:
				if s.Tok == token.ASSIGN && nested {
					pts = append(pts, point{func() *Mutant {
						l := line(s.Pos())
						d := "`" + text(s) + "`: = → := (shadows)"
						s.Tok = token.DEFINE
						return &Mutant{Line: l, Func: fn, Op: "shadow", Desc: d}
					}})
				}
				if len(s.Lhs) == 1 && len(s.Rhs) == 1 && s.Tok == token.ASSIGN {
					if id, ok := s.Rhs[0].(*ast.Ident); !ok || id.Name != "nil" {
						pts = append(pts, point{func() *Mutant {
							l := line(s.Pos())
							d := "`" + text(s) + "`: right-hand side → nil"
							s.Rhs[0] = ast.NewIdent("nil")
							return &Mutant{Line: l, Func: fn, Op: "nil-out", Desc: d}
						}})
					}
				}
			case *ast.IfStmt:
				if s.Else != nil {
					pts = append(pts, point{func() *Mutant {
						l := line(s.Else.Pos())
						s.Else = nil
						return &Mutant{Line: l, Func: fn, Op: "drop-else", Desc: "drop the else branch of `if " + text(s.Cond) + "`"}
					}})
				}
			}
		}
	}
	ast.Inspect(f, func(n ast.Node) bool {
		switch x := n.(type) {
		case *ast.FuncDecl:
			curFn = x.Name.Name
			depth = 0
			if x.Recv != nil && len(x.Recv.List) > 0 {
				curFn = strings.TrimPrefix(text(x.Recv.List[0].Type), "*") + "." + x.Name.Name
			}
			if x.Body != nil {
				visitBlock(&x.Body.List, false)
				// nested blocks are visited with nested=true below; mark the body as seen
				_ = x.Body.Lbrace
			}
		case *ast.BlockStmt:
			visitBlock(&x.List, true)
		case *ast.CaseClause:
			visitBlock(&x.Body, true)
			if len(x.List) > 0 && len(x.Body) > 0 {
				fn := curFn
				pts = append(pts, point{func() *Mutant {
					l := line(x.Pos())
					x.Body = nil
					return &Mutant{Line: l, Func: fn, Op: "empty-case", Desc: "empty the body of a switch case"}
				}})
			}
		case *ast.CommClause:
			visitBlock(&x.Body, true)
		case *ast.SelectStmt:
			fn := curFn
			for i, cl := range x.Body.List {
				i := i
				cc := cl.(*ast.CommClause)
				if cc.Comm != nil && len(x.Body.List) > 1 {
					pts = append(pts, point{func() *Mutant {
						l := line(cc.Pos())
						d := "remove select arm `" + text(cc.Comm) + "`"
						x.Body.List = append(x.Body.List[:i:i], x.Body.List[i+1:]...)
						return &Mutant{Line: l, Func: fn, Op: "remove-arm", Desc: d}
					}})
				}
			}
		case *ast.SelectorExpr:
			fn := curFn
			for _, other := range sib[x.Sel.Name] {
				other := other
				pts = append(pts, point{func() *Mutant {
					l := line(x.Pos())
					d := "`" + text(x) + "`: field " + x.Sel.Name + " → " + other
					x.Sel = ast.NewIdent(other)
					return &Mutant{Line: l, Func: fn, Op: "sibling-field", Desc: d}
				}})
			}
		case *ast.BasicLit:
			if x.Kind == token.INT {
				fn := curFn
				pts = append(pts, point{func() *Mutant {
					l := line(x.Pos())
					old := x.Value
					switch old {
					case "0":
						x.Value = "1"
					case "1":
						x.Value = "0"
					default:
						x.Value = old + " + 1"
					}
					return &Mutant{Line: l, Func: fn, Op: "int-lit", Desc: old + " → " + x.Value}
				}})
			}
		}
		return true
	})
	_ = depth
	return pts
}

// identSubst (operator set 3): replace one use of a local variable or parameter by another
// local variable or parameter of identical type that is in scope at that point ("wrong variable",
// "stale variable").  Needs types, so the packages are loaded with go/packages.
func identSubst(repo, out string, rels []string) {
	want := map[string]string{}
	for _, r := range rels {
		abs, _ := filepath.Abs(filepath.Join(repo, r))
		want[abs] = r
	}
	cfg := &packages.Config{Mode: packages.LoadSyntax, Dir: repo, Env: append(os.Environ(), "GOFLAGS=-mod=mod", "GOWORK=off")}
	pkgs, err := packages.Load(cfg, "./...")
	if err != nil {
		fmt.Fprintln(os.Stderr, err)
		os.Exit(2)
	}
	var all []Mutant
	id := 0
	for _, pkg := range pkgs {
		for _, f := range pkg.Syntax {
			fname := pkg.Fset.Position(f.Pos()).Filename
			rel, ok := want[fname]
			if !ok {
				continue
			}
			src, _ := os.ReadFile(fname)
			type cand struct {
				pos, end int
				from, to string
				line     int
				fn       string
			}
			var cands []cand
			for _, d := range f.Decls {
				fd, ok := d.(*ast.FuncDecl)
				if !ok || fd.Body == nil {
					continue
				}
				fn := fd.Name.Name
				if fd.Recv != nil && len(fd.Recv.List) > 0 {
					var b bytes.Buffer
					format.Node(&b, pkg.Fset, fd.Recv.List[0].Type)
					fn = strings.TrimPrefix(b.String(), "*") + "." + fn
				}
				// local objects of the function
				var locals []*types.Var
				ast.Inspect(fd, func(n ast.Node) bool {
					if idn, ok := n.(*ast.Ident); ok {
						if v, ok := pkg.TypesInfo.Defs[idn].(*types.Var); ok && !v.IsField() && v.Name() != "_" {
							locals = append(locals, v)
						}
					}
					return true
				})
				lhs := map[*ast.Ident]bool{}
				ast.Inspect(fd.Body, func(n ast.Node) bool {
					if as, ok := n.(*ast.AssignStmt); ok {
						for _, l := range as.Lhs {
							if idn, ok := l.(*ast.Ident); ok {
								lhs[idn] = true
							}
						}
					}
					return true
				})
				ast.Inspect(fd.Body, func(n ast.Node) bool {
					idn, ok := n.(*ast.Ident)
					if !ok || lhs[idn] {
						return true
					}
					v, ok := pkg.TypesInfo.Uses[idn].(*types.Var)
					if !ok || v.IsField() || v.Pkg() != pkg.Types || v.Parent() == pkg.Types.Scope() {
						return true
					}
					for _, o := range locals {
						if o == v || o.Name() == v.Name() || !types.Identical(o.Type(), v.Type()) {
							continue
						}
						// o must be visible at the use: its scope contains the position and it is declared before
						if o.Parent() == nil || !o.Parent().Contains(idn.Pos()) || o.Pos() >= idn.Pos() {
							continue
						}
						if _, isIface := o.Type().Underlying().(*types.Signature); isIface {
							continue
						}
						cands = append(cands, cand{pkg.Fset.Position(idn.Pos()).Offset, pkg.Fset.Position(idn.End()).Offset, v.Name(), o.Name(), pkg.Fset.Position(idn.Pos()).Line, fn})
					}
					return true
				})
			}
			for _, cd := range cands {
				mut := append([]byte{}, src[:cd.pos]...)
				mut = append(mut, []byte(cd.to)...)
				mut = append(mut, src[cd.end:]...)
				id++
				m := Mutant{ID: id, File: rel, Line: cd.line, Func: cd.fn, Op: "ident-subst", Desc: fmt.Sprintf("use of `%s` → `%s`", cd.from, cd.to)}
				m.Path = filepath.Join(out, fmt.Sprintf("m%04d_%s", id, strings.ReplaceAll(rel, "/", "_")))
				os.WriteFile(m.Path, mut, 0o644)
				all = append(all, m)
			}
		}
	}
	data, _ := json.MarshalIndent(all, "", " ")
	os.WriteFile(filepath.Join(out, "index.json"), data, 0o644)
	fmt.Printf("%d mutants written to %s\n", len(all), out)
}

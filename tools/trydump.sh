#!/bin/bash
# usage: trydump.sh <patch.diff> <Func> [region]  -- dump the walker's paths of Func on a scratch copy with the patch applied
set -u
patch=$1; fn=$2; region=${3:-func}
export GOFLAGS=-mod=mod GOPROXY=off GOSUMDB=off GOTOOLCHAIN=local GOWORK=off
d=$(mktemp -d /tmp/kscratch.XXXXXX)
(cd /repo && git ls-files | rsync -a --files-from=- . $d/)
if ! (cd $d && git init -q . && git apply --whitespace=nowarn "$patch"); then echo "PATCH DOES NOT APPLY"; rm -rf $d; exit 3; fi
${KCHECK:-/verif/bin/kcheck} -repo $d -dump "$fn" -region "$region" 2>&1 | sed "s#$d/##g"
rm -rf $d

package main

// Shutdown wiring (C11): stop channels flow down, Close never reaches up or
// sideways, feeding subscriptions are exclusively owned.

import (
	"fmt"
	"go/types"
	"strings"

	"golang.org/x/tools/go/ssa"
)

// constructors that take a stop channel, with the index of that parameter
var stopParamCtors = map[string]int{"newCache": 2, "newSubscription": 1, "newLister": 2, "newWatcher": 2}

// checkStopWiring: every call of a stop-channel-taking constructor passes
// `L.ShuttingDown()` where L is the lifecycle of the constructing actor (its
// own lc field, or the local lifecycle it stores into the actor being
// built); every such constructor forwards its stop channel to
// `go lc.WatchChannel(stopch)` on its own new lifecycle.  Returns the child table.
func checkStopWiring(c *Ctx) childTable {
	rule := "T-FLOW(stop-channel)"
	kids := childTable{}
	nsites := 0
	for _, f := range c.P.SrcFuncs("") {
		var calls []*ssa.Call
		for _, b := range f.Blocks {
			for _, in := range b.Instrs {
				if call, ok := in.(*ssa.Call); ok {
					if g := call.Call.StaticCallee(); g != nil {
						if _, ok := stopParamCtors[fnName(g)]; ok {
							calls = append(calls, call)
						}
					}
				}
			}
		}
		if len(calls) == 0 {
			continue
		}
		c.useFn(f)
		paths := (&Walker{P: c.P}).FuncRegion(f)
		c.paths += len(paths)
		// lifecycle stored into field lc of a struct built here
		for _, pa := range paths {
			var ownLC *Term
			actor := ""
			fieldOfCall := map[string]string{} // call term key -> field name it is stored in
			for _, e := range pa.Effects {
				if e.Kind == "store" && e.Addr.K == "faddr" {
					if e.Addr.S == "lc" {
						ownLC = e.Val
						if a, ok := e.Addr.A[0].V.(*ssa.Alloc); ok {
							actor = typeNameOf(a.Type())
						}
					}
					fieldOfCall[e.Val.Key()] = e.Addr.S
				}
			}
			if actor == "" && f.Signature.Recv() != nil {
				actor = typeNameOf(f.Signature.Recv().Type())
			}
			for _, e := range pa.Effects {
				if e.Kind != "call" || e.Fn == nil {
					continue
				}
				idx, ok := stopParamCtors[fnName(e.Fn)]
				if !ok {
					continue
				}
				nsites++
				c.sites++
				stop := e.Args[idx]
				r, _, isSD := isInvoke(stop, "ShuttingDown")
				good := false
				if isSD {
					switch {
					case r.IsRecvField("lc"):
						good = true
					case ownLC != nil && sameTerm(r, ownLC):
						good = true
					}
				}
				key := fmt.Sprintf("%s/%s(stop=own ShuttingDown)", fnName(f), fnName(e.Fn))
				c.check(good, rule, key, c.P.instrPos(e.In), "child stops with its parent",
					fmt.Sprintf("%s builds a child with %s(…) but passes %s as its stop channel instead of the ShuttingDown() of the lifecycle this actor is shut down through: the child would survive its parent (or die with a stranger)", fnName(f), fnName(e.Fn), stop.Key()))
				if good {
					fld := fieldOfCall[e.Res.Key()]
					if fld != "" && actor != "" {
						if kids[actor] == nil {
							kids[actor] = map[string]bool{}
						}
						kids[actor][fld] = true
					}
				}
			}
		}
	}
	c.check(nsites >= 6, rule, "stop-channel/call-sites", "-", fmt.Sprintf("%d constructor call sites", nsites), "fewer stop-channel constructor call sites than the 6 hand-confirmed (builder.Create x4, createSubscription, newFilterSubscription)")
	// receiving side
	for name, idx := range stopParamCtors {
		fn := c.mustFunc("", name)
		if fn == nil {
			continue
		}
		paths := (&Walker{P: c.P}).FuncRegion(fn)
		c.paths += len(paths)
		ok := len(paths) == 1
		watched := false
		if ok {
			var lcStored *Term
			for _, e := range paths[0].Effects {
				if e.Kind == "store" && e.Addr.K == "faddr" && e.Addr.S == "lc" {
					lcStored = e.Val
				}
			}
			for _, e := range paths[0].Effects {
				if e.Kind == "go" && e.Method == "WatchChannel" && len(e.Args) == 1 && e.Args[0].K == "param" && e.Args[0].S == fn.Params[idx].Name() {
					// receiver is the lifecycle stored in the new actor
					if lcStored != nil && (sameTerm(e.Recv, lcStored) || e.Recv.IsField("lc")) {
						watched = true
					}
				}
			}
		}
		c.check(ok && watched, rule, name+"/go-lc.WatchChannel(stopch)", c.P.fnPos(fn), "", name+" does not watch its stop-channel parameter with its own lifecycle (go lc.WatchChannel(stopch)): the parent's shutdown would not reach it")
	}
	// context watchers: constructors taking a ctx watch it
	for _, name := range []string{"newCache", "newLister", "newWatcher", "newWatchSession", "builder.Create"} {
		fn := c.mustFunc("", name)
		if fn == nil {
			continue
		}
		has := false
		for _, b := range fn.Blocks {
			for _, in := range b.Instrs {
				if g, ok := in.(*ssa.Go); ok && g.Call.IsInvoke() && g.Call.Method.Name() == "WatchContext" {
					has = true
				}
			}
		}
		c.check(has, rule, name+"/go-lc.WatchContext(ctx)", c.P.fnPos(fn), "", name+" no longer watches its context: cancelling the context would not stop this actor")
	}
	return kids
}

// checkCloseForwarding: Shutdown/ShutdownAsync only on the receiver's own lc,
// in the three owners; every other Close forwards to the one field that feeds
// the object.
func checkCloseForwarding(c *Ctx, rels []string) {
	rule := "T-WHO(Close)"
	owners := map[string]bool{"controller.Close": true, "_subscription.Close": true, "_watchSession.stop": true}
	forward := map[string]string{
		"filterSubscription.Close": "parent", "publisher.Close": "parent", "filterController.Close": "parent", "monitor.Close": "sub",
	}
	n := 0
	for _, rel := range rels {
		for _, f := range c.P.SrcFuncs(rel) {
			name := fnName(f)
			short := name
			if i := strings.Index(name, ":"); i >= 0 {
				short = name[i+1:]
			}
			for _, b := range f.Blocks {
				for _, in := range b.Instrs {
					cc, kind := callCommonOf(in)
					if cc == nil {
						continue
					}
					m := methodName(cc)
					rv := recvValue(cc)
					if (m == "Shutdown" || m == "ShutdownAsync") && rv != nil && isLifecycleType(rv.Type()) {
						n++
						c.sites++
						own := strings.Count(valPath(rv), ".") == 1 && strings.HasSuffix(valPath(rv), ".lc")
						c.check(own && owners[short] && kind == "call", rule, name+"/"+m+"-on-"+valPath(rv), c.P.instrPos(in), "own lifecycle",
							name+" requests shutdown of "+valPath(rv)+": only controller.Close, _subscription.Close and _watchSession.stop may request a shutdown, and only of their own lifecycle")
					}
				}
			}
			// Close methods
			if f.Signature.Recv() != nil && f.Name() == "Close" && !owners[short] {
				want, known := forward[short]
				if !known && rel != "" {
					// typed wrappers: forward to .parent
					want, known = "parent", true
				}
				if !known {
					c.fail(rule, name+"/unknown-Close-method", c.P.fnPos(f), "a Close method that the shutdown discipline does not know: "+name)
					continue
				}
				n++
				paths := (&Walker{P: c.P}).FuncRegion(f)
				c.paths += len(paths)
				ok := len(paths) == 1
				cnt := 0
				if ok {
					for _, e := range paths[0].Effects {
						switch {
						case e.Kind == "invoke" && e.Method == "Close":
							cnt++
							if p, okp := e.Recv.FieldPath(); !okp || !strings.HasSuffix(p, "."+want) {
								ok = false
							}
						case e.IsPure() || e.Kind == "rundefers":
						default:
							ok = false
						}
					}
				}
				c.check(ok && cnt == 1, rule, name+"/forwards-to-."+want, c.P.fnPos(f), "closes only what feeds this object",
					name+" does not just forward to its own feeding subscription (."+want+".Close()): closing this object would close something other than its own subtree")
			}
		}
	}
	c.floor(rule, 7, "3 owners + 4 forwarders in the root package")
	_ = n
}

// checkSubscriptionLinearity: the subscription obtained by Subscribe() in the
// wrapper constructors flows into exactly one constructor and nowhere else.
func checkSubscriptionLinearity(c *Ctx) {
	rule := "T-FLOW(exclusive-subscription)"
	for _, name := range []string{"publisher.SubscribeWithFilter", "publisher.SubscribeForFilter", "publisher.Clone", "publisher.CloneWithFilter", "publisher.CloneForFilter", "NewMonitor"} {
		fn := c.mustFunc("", name)
		if fn == nil {
			continue
		}
		var sub ssa.Value
		for _, b := range fn.Blocks {
			for _, in := range b.Instrs {
				if call, ok := in.(*ssa.Call); ok {
					m := methodName(&call.Call)
					if m == "Subscribe" || m == "SubscribeWithFilter" || m == "SubscribeForFilter" {
						// value = extract #0
						for _, r := range *call.Referrers() {
							if ex, ok := r.(*ssa.Extract); ok && ex.Index == 0 {
								sub = ex
							}
						}
					}
				}
			}
		}
		if sub == nil {
			c.fail(rule, name+"/obtains-a-subscription", c.P.fnPos(fn), name+" does not obtain its own subscription from the publisher")
			continue
		}
		uses := 0
		bad := ""
		var visit func(v ssa.Value)
		visit = func(v ssa.Value) {
			for _, r := range *v.Referrers() {
				switch x := r.(type) {
				case *ssa.Call:
					uses++
				case *ssa.Store:
					uses++ // stored into the object being built (monitor{sub,…})
				case *ssa.MakeInterface:
					visit(x)
				case *ssa.ChangeInterface:
					visit(x)
				case *ssa.DebugRef, *ssa.Return:
				case *ssa.Go, *ssa.Send, *ssa.MakeClosure:
					bad = fmt.Sprintf("%T", x)
				}
			}
		}
		visit(sub)
		c.check(uses == 1 && bad == "", rule, name+"/subscription-used-once", c.P.fnPos(fn), "flows into exactly one wrapper", fmt.Sprintf("the subscription obtained in %s is used %d times (%s): two wrappers sharing one feeding subscription would close each other", name, uses, bad))
	}
}

// checkOutchClosed: consumer-facing event channels are closed exactly where
// their only sender exits, after the last possible send.
func checkOutchClosed(c *Ctx) {
	rule := "T-CHAN(close-after-last-send)"
	// every close() of a field named outch, by function
	closes := map[string][]string{}
	for _, f := range c.P.SrcFuncs("") {
		for _, b := range f.Blocks {
			for _, in := range b.Instrs {
				cc, kind := callCommonOf(in)
				if cc == nil {
					continue
				}
				if bi, ok := cc.Value.(*ssa.Builtin); ok && bi.Name() == "close" {
					p := valPath(cc.Args[0])
					if strings.HasSuffix(p, ".outch") {
						var recvT types.Type
						if f.Signature.Recv() != nil {
							recvT = f.Signature.Recv().Type()
						} else if len(f.Params) > 0 {
							recvT = f.Params[0].Type()
						} else {
							continue
						}
						tn := typeNameOf(recvT)
						key := tn + ".outch"
						where := fnName(f)
						// a private helper that only runs inside the owner's run function (its shutdown
						// tail moved into `shutdown()`) closes on the run function's behalf
						if where != tn+".run" && kind == "call" && c.P.ownedBy(f, "", tn+".run") {
							where = tn + ".run"
						}
						closes[key] = append(closes[key], where+"["+kind+"]")
					}
				}
			}
		}
	}
	want := map[string]string{"_subscription.outch": "_subscription.run[defer]", "filterSubscription.outch": "filterSubscription.run[call]"}
	for ch, site := range want {
		got := closes[ch]
		c.check(len(got) == 1 && got[0] == site, rule, ch+"/closed-only-in-owner-run", "-", site, fmt.Sprintf("%s must be closed exactly once, by its owner's run function on exit (%s); found close sites %v", ch, site, got))
	}
	// filterSubscription: close(outch) follows the loop (no distribute after it): guaranteed by the table's exit rows
}

package main

// E1: loader.  Loads the working tree of the repository with go/packages,
// type-checks it, builds go/ssa form for the whole dependency closure and
// offers lookup helpers.  Nothing is cached between runs.

import (
	"fmt"
	"go/ast"
	"go/token"
	"go/types"
	"os"
	"path/filepath"
	"sort"
	"strings"

	"golang.org/x/tools/go/callgraph"
	"golang.org/x/tools/go/callgraph/cha"
	"golang.org/x/tools/go/callgraph/vta"
	"golang.org/x/tools/go/packages"
	"golang.org/x/tools/go/ssa"
	"golang.org/x/tools/go/ssa/ssautil"
)

const modPath = "github.com/boz/kcache"

type Prog struct {
	rfpMemo   map[*ssa.Function]map[*ssa.Parameter]*Term
	callerIdx map[*ssa.Function][]callSite
	ownerMemo map[*ssa.Function]map[*ssa.Function]bool
	Dir       string
	Fset      *token.FileSet
	Pkgs      []*packages.Package // repository packages, sorted by path
	ByPath    map[string]*packages.Package
	SSA       *ssa.Program
	SPkg      map[string]*ssa.Package

	cha *callgraph.Graph
	vta *callgraph.Graph

	allFns map[*ssa.Function]bool
}

// minimum number of repository packages the loader must see (hand-confirmed:
// root, client, client/mocks, filter, join, join/gen, nsname, testutil, types,
// types/gen, 12 typed packages, util, _example is skipped by the go tool).
const minPackages = 23

// overlays: original path -> replacement file (debug/audit only: -overlay flag)
var overlays = map[string]string{}

func loadProg(dir string) (*Prog, error) {
	if os.Getenv("GOWORK") != "" && os.Getenv("GOWORK") != "off" {
		return nil, fmt.Errorf("GOWORK must be unset")
	}
	env := append(os.Environ(), "GOFLAGS=-mod=mod", "GOPROXY=off", "GOSUMDB=off", "GOTOOLCHAIN=local", "GOWORK=off")
	cfg := &packages.Config{
		Mode:  packages.LoadAllSyntax,
		Dir:   dir,
		Env:   env,
		Tests: false,
	}
	if len(overlays) > 0 {
		cfg.Overlay = map[string][]byte{}
		for orig, repl := range overlays {
			data, err := os.ReadFile(repl)
			if err != nil {
				return nil, fmt.Errorf("overlay %s: %v", repl, err)
			}
			cfg.Overlay[orig] = data
		}
	}
	pkgs, err := packages.Load(cfg, "./...")
	if err != nil {
		return nil, fmt.Errorf("packages.Load: %v", err)
	}
	var errs []string
	packages.Visit(pkgs, nil, func(p *packages.Package) {
		for _, e := range p.Errors {
			errs = append(errs, e.Error())
		}
	})
	if len(errs) > 0 {
		sort.Strings(errs)
		if len(errs) > 10 {
			errs = errs[:10]
		}
		return nil, fmt.Errorf("type errors: %s", strings.Join(errs, "; "))
	}
	p := &Prog{Dir: dir, ByPath: map[string]*packages.Package{}, SPkg: map[string]*ssa.Package{}}
	for _, pk := range pkgs {
		if pk.PkgPath == modPath || strings.HasPrefix(pk.PkgPath, modPath+"/") {
			p.Pkgs = append(p.Pkgs, pk)
			p.ByPath[pk.PkgPath] = pk
		}
	}
	sort.Slice(p.Pkgs, func(i, j int) bool { return p.Pkgs[i].PkgPath < p.Pkgs[j].PkgPath })
	if len(p.Pkgs) < minPackages {
		return nil, fmt.Errorf("loaded %d repository packages, expected >= %d", len(p.Pkgs), minPackages)
	}
	if len(pkgs) > 0 {
		p.Fset = pkgs[0].Fset
	}
	// what the build covers: the repository has no build-tagged or
	// arch-specific production files; if one appears the default load no
	// longer sees everything and the run must fail rather than pass blind.
	if err := p.assertNoConstrainedFiles(); err != nil {
		return nil, err
	}
	prog, _ := ssautil.AllPackages(pkgs, ssa.InstantiateGenerics)
	prog.Build()
	p.SSA = prog
	curProg = p
	for _, sp := range prog.AllPackages() {
		p.SPkg[sp.Pkg.Path()] = sp
	}
	return p, nil
}

func (p *Prog) assertNoConstrainedFiles() error {
	var bad []string
	filepath.Walk(p.Dir, func(path string, info os.FileInfo, err error) error {
		if err != nil {
			return nil
		}
		if info.IsDir() {
			n := info.Name()
			if path != p.Dir && (strings.HasPrefix(n, ".") || strings.HasPrefix(n, "_") || n == "testdata" || n == "vendor") {
				return filepath.SkipDir
			}
			return nil
		}
		if !strings.HasSuffix(path, ".go") || strings.HasSuffix(path, "_test.go") {
			return nil
		}
		data, err := os.ReadFile(path)
		if err != nil {
			return nil
		}
		// only the header (before the package clause) can carry constraints
		head := string(data)
		if i := strings.Index(head, "\npackage "); i >= 0 {
			head = head[:i]
		}
		if strings.Contains(head, "//go:build") || strings.Contains(head, "// +build") {
			bad = append(bad, path)
		}
		base := strings.TrimSuffix(filepath.Base(path), ".go")
		for _, suf := range []string{"_linux", "_windows", "_darwin", "_amd64", "_arm64", "_386", "_unix"} {
			if strings.HasSuffix(base, suf) {
				bad = append(bad, path)
			}
		}
		return nil
	})
	if len(bad) > 0 {
		return fmt.Errorf("build-constrained production files present (not covered by the default load): %v", bad)
	}
	return nil
}

// Root returns the ssa package for a path relative to the module ("" = root).
func (p *Prog) Pkg(rel string) *ssa.Package {
	path := modPath
	if rel != "" {
		path += "/" + rel
	}
	return p.SPkg[path]
}

// Func looks up "name", "T.method" or "(*T).method"-style names, including
// closures as "T.method$1".  Returns nil if absent.
func (p *Prog) Func(rel, name string) *ssa.Function {
	sp := p.Pkg(rel)
	if sp == nil {
		return nil
	}
	closure := ""
	if i := strings.Index(name, "$"); i >= 0 {
		closure = name[i:]
		name = name[:i]
	}
	var fn *ssa.Function
	if i := strings.Index(name, "."); i >= 0 {
		tn, mn := name[:i], name[i+1:]
		m := sp.Members[tn]
		t, ok := m.(*ssa.Type)
		if !ok {
			return nil
		}
		T := t.Type()
		hasMethod := func(t types.Type) bool {
			return p.SSA.MethodSets.MethodSet(t).Lookup(sp.Pkg, mn) != nil
		}
		if hasMethod(types.NewPointer(T)) {
			fn = p.SSA.LookupMethod(types.NewPointer(T), sp.Pkg, mn)
		}
		if fn == nil && hasMethod(T) {
			fn = p.SSA.LookupMethod(T, sp.Pkg, mn)
		}
		if fn == nil {
			// the method may have been turned into a plain function taking the receiver first
			if pf := sp.Func(mn); pf != nil && recvLikeType(pf) == tn {
				fn = pf
			}
		}
		// LookupMethod on *T may return a wrapper for a value method
		if fn != nil && fn.Synthetic != "" && hasMethod(T) {
			if f2 := p.SSA.LookupMethod(T, sp.Pkg, mn); f2 != nil && f2.Synthetic == "" {
				fn = f2
			}
		}
	} else {
		fn = sp.Func(name)
	}
	if fn == nil || closure == "" {
		return fn
	}
	for _, part := range strings.Split(closure[1:], "$") {
		var idx int
		fmt.Sscanf(part, "%d", &idx)
		if idx < 1 || idx > len(fn.AnonFuncs) {
			return nil
		}
		fn = fn.AnonFuncs[idx-1]
	}
	return fn
}

// SrcFuncs returns all source-level functions (incl. methods and closures)
// of the repository package rel, sorted by name.
func (p *Prog) SrcFuncs(rel string) []*ssa.Function {
	sp := p.Pkg(rel)
	if sp == nil {
		return nil
	}
	var out []*ssa.Function
	var add func(f *ssa.Function)
	add = func(f *ssa.Function) {
		if f == nil || f.Synthetic != "" || f.Blocks == nil {
			return
		}
		out = append(out, f)
		for _, a := range f.AnonFuncs {
			add(a)
		}
	}
	for _, m := range sp.Members {
		switch m := m.(type) {
		case *ssa.Function:
			if m.Name() == "init" && m.Synthetic != "" {
				continue
			}
			add(m)
		case *ssa.Type:
			for _, T := range []types.Type{m.Type(), types.NewPointer(m.Type())} {
				ms := p.SSA.MethodSets.MethodSet(T)
				for i := 0; i < ms.Len(); i++ {
					f := p.SSA.MethodValue(ms.At(i))
					if f != nil && f.Synthetic == "" && f.Pkg == sp {
						add(f)
					}
				}
			}
		}
	}
	seen := map[*ssa.Function]bool{}
	var uniq []*ssa.Function
	for _, f := range out {
		if !seen[f] {
			seen[f] = true
			uniq = append(uniq, f)
		}
	}
	sort.Slice(uniq, func(i, j int) bool { return fnName(uniq[i]) < fnName(uniq[j]) })
	return uniq
}

// repoRels lists the module-relative paths of all loaded repository packages.
func (p *Prog) repoRels() []string {
	var out []string
	for _, pk := range p.Pkgs {
		out = append(out, strings.TrimPrefix(strings.TrimPrefix(pk.PkgPath, modPath), "/"))
	}
	return out
}

// recvLikeType: for a plain function of a repository package whose first parameter is (a pointer
// to) a struct type T of the same package, where T has no method of that name and the function is
// not one of the tree's constructors, the name of T.  Such a function is named "T.f" like the
// method it is interchangeable with, so that method<->function refactorings keep every anchor.
func recvLikeType(f *ssa.Function) string {
	if f == nil || f.Pkg == nil || f.Parent() != nil || f.Signature.Recv() != nil || f.Signature.Params().Len() == 0 || anchorCtors[f.Name()] {
		return ""
	}
	if !strings.HasPrefix(f.Pkg.Pkg.Path(), modPath) {
		return ""
	}
	t := f.Signature.Params().At(0).Type()
	if pt, ok := t.(*types.Pointer); ok {
		t = pt.Elem()
	}
	n, ok := t.(*types.Named)
	if !ok || n.Obj().Pkg() != f.Pkg.Pkg {
		return ""
	}
	if _, ok := n.Underlying().(*types.Struct); !ok {
		return ""
	}
	if obj, _, _ := types.LookupFieldOrMethod(types.NewPointer(n), true, f.Pkg.Pkg, f.Name()); obj != nil {
		return ""
	}
	return n.Obj().Name()
}

// fnName gives a short stable name: "T.method", "func", "T.method$1",
// prefixed with the module-relative package for non-root packages.
func fnName(f *ssa.Function) string {
	if f == nil {
		return "<nil>"
	}
	name := f.Name()
	if f.Parent() != nil {
		// closure: name is like "run$1"
		root := f
		for root.Parent() != nil {
			root = root.Parent()
		}
		suffix := strings.TrimPrefix(f.Name(), root.Name())
		return fnName(root) + suffix
	}
	if f.Signature.Recv() == nil {
		if tn := recvLikeType(f); tn != "" {
			name = tn + "." + f.Name()
		}
	}
	if recv := f.Signature.Recv(); recv != nil {
		t := recv.Type()
		if pt, ok := t.(*types.Pointer); ok {
			t = pt.Elem()
		}
		if n, ok := t.(*types.Named); ok {
			name = n.Obj().Name() + "." + f.Name()
		}
	}
	if f.Pkg != nil {
		pp := f.Pkg.Pkg.Path()
		if pp == modPath {
			return name
		}
		if strings.HasPrefix(pp, modPath+"/") {
			return strings.TrimPrefix(pp, modPath+"/") + ":" + name
		}
		return pp + "." + name
	}
	return f.String()
}

func (p *Prog) pos(pos token.Pos) string {
	if !pos.IsValid() {
		return "-"
	}
	ps := p.Fset.Position(pos)
	rel, err := filepath.Rel(p.Dir, ps.Filename)
	if err != nil || strings.HasPrefix(rel, "..") {
		rel = ps.Filename
	}
	return fmt.Sprintf("%s:%d", rel, ps.Line)
}

func (p *Prog) fnPos(f *ssa.Function) string {
	if f == nil {
		return "-"
	}
	return p.pos(f.Pos())
}

// instrPos finds a useful position for an instruction (some have NoPos).
func (p *Prog) instrPos(in ssa.Instruction) string {
	if in == nil {
		return "-"
	}
	if in.Pos().IsValid() {
		return p.pos(in.Pos())
	}
	if v, ok := in.(ssa.Value); ok {
		if rs := v.Referrers(); rs != nil {
			for _, r := range *rs {
				if r.Pos().IsValid() {
					return p.pos(r.Pos())
				}
			}
		}
	}
	// fall back to any positioned instruction of the block, then the function
	if b := in.Block(); b != nil {
		for _, x := range b.Instrs {
			if x.Pos().IsValid() {
				return p.pos(x.Pos())
			}
		}
	}
	return p.fnPos(in.Parent())
}

// ---------- call graphs ----------

func (p *Prog) AllFunctions() map[*ssa.Function]bool {
	if p.allFns == nil {
		p.allFns = ssautil.AllFunctions(p.SSA)
	}
	return p.allFns
}

func (p *Prog) CHA() *callgraph.Graph {
	if p.cha == nil {
		p.cha = cha.CallGraph(p.SSA)
	}
	return p.cha
}

func (p *Prog) VTA() *callgraph.Graph {
	if p.vta == nil {
		p.vta = vta.CallGraph(p.AllFunctions(), p.CHA())
	}
	return p.vta
}

// inRepo reports whether f belongs to a repository package.
func inRepo(f *ssa.Function) bool {
	for f != nil && f.Parent() != nil {
		f = f.Parent()
	}
	if f == nil || f.Pkg == nil {
		return false
	}
	pp := f.Pkg.Pkg.Path()
	return pp == modPath || strings.HasPrefix(pp, modPath+"/")
}

// fileOf returns the *ast.File of a repository package by base name.
func (p *Prog) fileOf(rel, base string) *ast.File {
	path := modPath
	if rel != "" {
		path += "/" + rel
	}
	pk := p.ByPath[path]
	if pk == nil {
		return nil
	}
	for i, f := range pk.Syntax {
		if filepath.Base(pk.CompiledGoFiles[i]) == base {
			return f
		}
	}
	return nil
}

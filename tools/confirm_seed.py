#!/usr/bin/env python3
"""Confirm a seeded defect produced by a sub-agent and store it under /verif/seeded/<id>/.

usage: confirm_seed.py <seed-dir> <id> [--dest REL] [--run REGEX] [--pkg ./REL]

Steps, all in a scratch git worktree of /repo (removed afterwards):
  A. unchanged tree + demo           -> demo must pass
  B. patch applied, demo removed     -> go build ./... and the existing suite must pass
  C. patch applied + demo            -> demo must fail
"""
import argparse, json, os, shutil, subprocess, sys, glob, time

ENV = dict(os.environ, GOFLAGS="-mod=mod", GOPROXY="off", GOSUMDB="off", GOTOOLCHAIN="local", GOWORK="off")


def sh(cmd, cwd, timeout=900):
    p = subprocess.run(cmd, shell=True, cwd=cwd, env=ENV, stdout=subprocess.PIPE, stderr=subprocess.STDOUT, text=True, timeout=timeout)
    return p.returncode, p.stdout


def main():
    ap = argparse.ArgumentParser()
    ap.add_argument("seed")
    ap.add_argument("id")
    ap.add_argument("--dest", default=".")
    ap.add_argument("--run", default="TestSeed")
    ap.add_argument("--keep", action="store_true")
    ap.add_argument("--only", default="", help="substring a demo file name must contain")
    a = ap.parse_args()
    seed = os.path.abspath(a.seed)
    wt = "/tmp/confirm/" + a.id
    os.makedirs("/tmp/confirm", exist_ok=True)
    subprocess.run(f"git -C /repo worktree remove --force {wt}", shell=True, stdout=subprocess.DEVNULL, stderr=subprocess.DEVNULL)
    rc, out = sh(f"git -C /repo worktree add --detach {wt} HEAD -q", "/")
    if rc:
        print(out); return 2
    demos = [f for f in glob.glob(seed + "/demo/*") if f.endswith(".go") and a.only in os.path.basename(f)]
    pkg = "./" + a.dest if a.dest != "." else "."
    result = {"id": a.id, "repo_head": subprocess.check_output("git -C /repo rev-parse --short HEAD", shell=True, text=True).strip()}
    ok = True
    try:
        def place():
            for f in demos:
                shutil.copy(f, os.path.join(wt, a.dest, os.path.basename(f)))
        def unplace():
            for f in demos:
                p = os.path.join(wt, a.dest, os.path.basename(f))
                if os.path.exists(p): os.remove(p)
        demo_cmd = f"go test -vet=off -count=1 -run '{a.run}' {pkg}"
        # A
        place()
        passes = 0
        for i in range(3):
            rc, out = sh(demo_cmd, wt)
            passes += (rc == 0)
        result["A_demo_on_unchanged"] = f"{passes}/3 pass"
        if passes != 3:
            ok = False; print("A FAILED\n" + out[-3000:])
        unplace()
        # B
        rc, out = sh(f"git apply --whitespace=nowarn {seed}/patch.diff", wt)
        if rc:
            ok = False; result["B_apply"] = "patch does not apply"; print(out)
        else:
            rc, out = sh("go build ./... && go vet ./... >/dev/null 2>&1; go build ./...", wt)
            result["B_build"] = "ok" if rc == 0 else "FAILED"
            if rc: ok = False; print(out[-2000:])
            suite_ok = 0
            tries = 0
            while tries < 3 and suite_ok < 2:
                tries += 1
                rc, out = sh("go test -vet=off -count=1 ./... 2>&1 | grep -E '^(FAIL|ok|---)' | grep -v '^ok' ", wt)
                # grep -v returns 1 when nothing but ok lines
                failed = [l for l in out.splitlines() if l.startswith("FAIL") or l.startswith("--- FAIL")]
                if not failed:
                    suite_ok += 1
                else:
                    result.setdefault("B_suite_flakes", []).append(failed[:4])
            result["B_existing_suite_with_patch"] = f"{suite_ok} clean runs of {tries}"
            if suite_ok < 2:
                ok = False; print("B FAILED", out[-2000:])
            # C
            place()
            fails = 0
            last = ""
            for i in range(3):
                rc, out = sh(demo_cmd, wt)
                fails += (rc != 0)
                if rc != 0: last = out
            result["C_demo_with_patch"] = f"{fails}/3 fail"
            if "build failed" in last or "cannot use" in last or "undefined:" in last:
                ok = False; print("C: demo does not compile with patch\n" + last[-2000:])
            if fails < 3:
                ok = False; print("C FAILED (demo passes with patch)")
            else:
                lines = [l for l in last.splitlines() if "---" in l or "Error" in l or "seed_demo" in l or "demo_test" in l]
                result["C_failure_excerpt"] = lines[:6]
    finally:
        if not a.keep:
            subprocess.run(f"git -C /repo worktree remove --force {wt}", shell=True)
    result["confirmed"] = ok
    print(json.dumps(result, indent=1))
    if ok:
        dst = "/verif/seeded/" + a.id
        shutil.rmtree(dst, ignore_errors=True)
        os.makedirs(dst + "/demo")
        shutil.copy(seed + "/patch.diff", dst + "/patch.diff")
        for f in glob.glob(seed + "/demo/*"):
            shutil.copy(f, dst + "/demo/")
        meta = {}
        try:
            meta = json.load(open(seed + "/meta.json"))
        except Exception as e:
            meta = {"note": "agent meta.json unreadable: %s" % e}
        meta["id"] = a.id
        meta["demo_placement"] = {"copy": [os.path.basename(f) for f in demos], "to": a.dest, "run": f"go test -vet=off -count=1 -run '{a.run}' {pkg}"}
        meta["confirmed_by_main_session"] = result
        json.dump(meta, open(dst + "/meta.json", "w"), indent=1)
    return 0 if ok else 1


if __name__ == "__main__":
    sys.exit(main())

#!/bin/bash
# usage: confirm_round2.sh C04 [C12 ...]  -- confirms /tmp/seed/<id>/SEED2/{1,2,3}; the demo's package is read from WHERE.txt
for id in "$@"; do
 for n in 1 2 3; do
  s=/tmp/seed/$id/SEED2/$n
  [ -f $s/patch.diff ] || continue
  pkg=$(grep -h -o "go test[^\n]*" $s/demo/WHERE.txt | grep -o -E "\./[a-z/]+|\s\.\s*$|\s\.$" | tail -1 | tr -d ' ')
  [ -z "$pkg" ] && pkg=.
  dest=${pkg#./}; [ "$pkg" = "." ] && dest=.
  echo "##### $id-r2-$n dest=$dest"
  python3 /verif/tools/confirm_seed.py $s $id-r2-$n --dest "$dest" 2>&1 | tail -16
 done
done

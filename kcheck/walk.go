package main

// E2: region path walker.  Enumerates every acyclic CFG path of a region of
// one SSA function (optionally inlining listed same-repository helpers),
// evaluating each SSA value to a canonical Term, tracking a small sequential
// store for locals/receiver fields, recording branch literals and effects,
// and pruning only on propositional contradiction between literals with the
// same canonical key or on an empty order relation between the same pair of
// operands.  No solver, no arithmetic.

import (
	"fmt"
	"go/token"
	"go/types"
	"sort"
	"strconv"
	"strings"

	"golang.org/x/tools/go/ssa"
)

type Lit struct {
	T   *Term
	Val bool
	In  ssa.Instruction
}

func (l Lit) String() string {
	if l.Val {
		return l.T.Key()
	}
	return "NOT " + l.T.Key()
}

type SelState struct {
	Dir  types.ChanDir
	Chan *Term
	Send *Term
}

type Effect struct {
	Kind   string // call invoke dyncall go defer send recv select close store mapupdate mapdelete append rundefers log builtin
	In     ssa.Instruction
	Fn     *ssa.Function // static callee (call/go/defer)
	Method string        // invoke: method name
	Recv   *Term         // invoke: receiver
	Args   []*Term       // call args (for static methods the receiver is Args[0])
	Res    *Term         // result term of the call / recv / select
	// select
	Sel      []SelState
	Blocking bool
	Arm      int // chosen arm, -1 = default
	// store
	Addr  *Term
	Val   *Term
	Mode  string // for go/defer: "call"|"invoke"|"dyncall"|"builtin"
	Depth int    // inlining depth at which the effect occurred
}

func (e *Effect) String() string {
	switch e.Kind {
	case "call", "go", "defer":
		name := ""
		if e.Fn != nil {
			name = fnName(e.Fn)
		} else if e.Method != "" {
			name = e.Recv.Key() + "." + e.Method
		} else if e.Res != nil {
			name = e.Res.Key()
		}
		var as []string
		for _, a := range e.Args {
			as = append(as, a.Key())
		}
		pre := e.Kind
		return pre + " " + name + "(" + strings.Join(as, ", ") + ")"
	case "invoke":
		var as []string
		for _, a := range e.Args {
			as = append(as, a.Key())
		}
		return "invoke " + e.Recv.Key() + "." + e.Method + "(" + strings.Join(as, ", ") + ")"
	case "dyncall":
		var as []string
		for _, a := range e.Args {
			as = append(as, a.Key())
		}
		return "dyncall " + e.Recv.Key() + "(" + strings.Join(as, ", ") + ")"
	case "send":
		return "send " + e.Addr.Key() + " <- " + e.Val.Key()
	case "recv":
		return "recv <-" + e.Addr.Key()
	case "select":
		var st []string
		for i, s := range e.Sel {
			x := "<-" + s.Chan.Key()
			if s.Dir == types.SendOnly {
				x = s.Chan.Key() + " <- " + s.Send.Key()
			}
			if i == e.Arm {
				x = "[" + x + "]"
			}
			st = append(st, x)
		}
		bl := "blocking"
		if !e.Blocking {
			bl = "nonblocking"
			if e.Arm == -1 {
				st = append(st, "[default]")
			} else {
				st = append(st, "default")
			}
		}
		return "select " + bl + " {" + strings.Join(st, "; ") + "}"
	case "close":
		return "close " + e.Addr.Key()
	case "store":
		return "store " + e.Addr.Key() + " := " + e.Val.Key()
	case "mapupdate":
		return "mapupdate " + e.Addr.Key() + "[" + e.Args[0].Key() + "] := " + e.Val.Key()
	case "mapdelete":
		return "mapdelete " + e.Addr.Key() + "[" + e.Args[0].Key() + "]"
	case "append":
		var as []string
		for _, a := range e.Args[1:] {
			as = append(as, a.Key())
		}
		return "append " + e.Args[0].Key() + " += [" + strings.Join(as, ", ") + "]"
	case "builtin":
		var as []string
		for _, a := range e.Args {
			as = append(as, a.Key())
		}
		return "builtin " + e.Method + "(" + strings.Join(as, ", ") + ")"
	}
	return e.Kind
}

type PathEnd struct {
	Kind    string // return | stop | cycle | panic
	Block   *ssa.BasicBlock
	From    *ssa.BasicBlock
	Results []*Term
	In      ssa.Instruction
}

type Path struct {
	Lits    []Lit
	Rel     map[string]int // order-atom masks: "a ? b" -> mask
	Effects []*Effect
	End     PathEnd
	PhiNext map[string]*Term // loop-header phi name -> next value (on stop edges)
	Blocks  []int
	State   *State
}

type State struct {
	mem     map[string]*Term
	memRoot map[string]ssa.Value // address key -> root alloc (nil if not alloc-rooted)
	val     map[ssa.Value]*Term
	lits    []Lit
	rel     map[string]int
	effects []*Effect
	trail   []trailEnt
	blocks  []int
}

type trailEnt struct {
	depth int
	b     *ssa.BasicBlock
}

func newState() *State {
	return &State{mem: map[string]*Term{}, memRoot: map[string]ssa.Value{}, val: map[ssa.Value]*Term{}, rel: map[string]int{}}
}

func (s *State) clone() *State {
	n := &State{mem: make(map[string]*Term, len(s.mem)), memRoot: make(map[string]ssa.Value, len(s.memRoot)), val: make(map[ssa.Value]*Term, len(s.val)), rel: make(map[string]int, len(s.rel))}
	for k, v := range s.mem {
		n.mem[k] = v
	}
	for k, v := range s.memRoot {
		n.memRoot[k] = v
	}
	for k, v := range s.val {
		n.val[k] = v
	}
	for k, v := range s.rel {
		n.rel[k] = v
	}
	n.lits = append([]Lit(nil), s.lits...)
	n.effects = append([]*Effect(nil), s.effects...)
	n.trail = append([]trailEnt(nil), s.trail...)
	n.blocks = append([]int(nil), s.blocks...)
	return n
}

type frame struct {
	fn     *ssa.Function
	depth  int
	params map[*ssa.Parameter]*Term
	ret    func(s *State, results []*Term)
}

type Walker struct {
	P         *Prog
	Inline    map[*ssa.Function]bool
	Limit     int
	Stops     map[*ssa.BasicBlock]bool
	Start     *ssa.BasicBlock
	Paths     []*Path
	Truncated bool
	// PhiNames gives loop-header phis a role name that does not depend on the
	// source variable's name (so renaming a local leaves every verdict unchanged)
	PhiNames map[*ssa.Phi]string
	// NoFork: do not fork on select arms (treat select as one effect, index symbolic)
}

// ---------- purity tables (frozen, one reason per entry) ----------

// invoke methods whose result is a pure function of the receiver (key has no
// instruction identity).
var pureInvoke = map[string]string{
	"GetNamespace":       "metav1.Object accessor",
	"GetName":            "metav1.Object accessor",
	"GetResourceVersion": "metav1.Object accessor",
	"GetLabels":          "metav1.Object accessor",
	"Type":               "kcache.Event accessor",
	"Resource":           "kcache.Event accessor",
	"ShuttingDown":       "lifecycle accessor: same channel for the life of lc",
	"ShutdownRequest":    "lifecycle accessor",
	"Done":               "lifecycle / Done() accessor: same channel every call",
}

// static callees that are pure functions of their arguments.
var pureStatic = map[string]string{
	"strconv.Atoi":                    "pure",
	"NewEvent":                        "same-package constructor (checked by rule event-ctor)",
	"nsname:New":                      "constructor",
	"nsname:ForObject":                "constructor from accessors",
	"filter:FiltersEqual":             "pure given pure Equals (C17)",
	"listResourceVersion":             "same-package pure helper over meta.ListAccessor (shape checked by C14)",
	"extractList":                     "same-package pure helper over meta.ExtractList (shape checked by C14)",
	"github.com/pkg/errors.Wrap":      "wraps its argument",
	"github.com/pkg/errors.WithStack": "wraps its argument",
}

// harmlessStd: standard-library functions that neither block nor touch anything a property is
// about (clock reads, string formatting and parsing).  Frozen list; time.Sleep/After/NewTimer/
// AfterFunc/Tick are deliberately not in it.
func harmlessStd(f *ssa.Function) bool {
	if f.Pkg == nil {
		return false
	}
	recv := ""
	if r := f.Signature.Recv(); r != nil {
		recv = typeNameOf(r.Type())
	}
	switch f.Pkg.Pkg.Path() {
	case "time":
		if recv == "Time" || recv == "Duration" {
			return true
		}
		return recv == "" && (f.Name() == "Now" || f.Name() == "Since" || f.Name() == "Until")
	case "fmt":
		return recv == "" && (f.Name() == "Sprintf" || f.Name() == "Sprint" || f.Name() == "Sprintln")
	case "strings":
		return recv == "" && f.Name() != "NewReader" && f.Name() != "NewReplacer"
	}
	return false
}

var nilPreservingWrap = map[string]bool{
	"github.com/pkg/errors.Wrap": true, "github.com/pkg/errors.Wrapf": true,
	"github.com/pkg/errors.WithStack": true, "github.com/pkg/errors.WithMessage": true,
}

func isLogType(t types.Type) bool {
	for {
		if p, ok := t.(*types.Pointer); ok {
			t = p.Elem()
			continue
		}
		break
	}
	n, ok := t.(*types.Named)
	return ok && n.Obj().Pkg() != nil && strings.HasSuffix(n.Obj().Pkg().Path(), "go-logutil") && n.Obj().Name() == "Log"
}

func isLogCall(c *ssa.CallCommon) bool {
	if c.IsInvoke() {
		return isLogType(c.Value.Type())
	}
	return false
}

// ---------- evaluation ----------

func (w *Walker) eval(s *State, fr *frame, v ssa.Value) *Term {
	if v == nil {
		return tNil
	}
	if t, ok := s.val[v]; ok {
		return t
	}
	switch v := v.(type) {
	case *ssa.Const:
		return constTerm(v)
	case *ssa.Parameter:
		if fr != nil && fr.params != nil {
			if t, ok := fr.params[v]; ok {
				return t
			}
		}
		return &Term{K: "param", S: v.Name(), V: v}
	case *ssa.FreeVar:
		return &Term{K: "freevar", S: v.Name(), V: v}
	case *ssa.Global:
		return &Term{K: "global", S: shortQual(v.Pkg.Pkg) + "." + v.Name(), V: v}
	case *ssa.Function:
		return &Term{K: "func", S: fnName(v), Fn: v, V: v}
	case *ssa.Builtin:
		return &Term{K: "builtin", S: v.Name(), V: v}
	}
	// instruction value not yet seen on this path (defined before the region
	// start or in an enclosing scope): evaluate structurally, without memory.
	t := w.compute(s, fr, v, false)
	return t
}

// addrRoot returns the alloc an address is rooted at, if any.
func addrRoot(v ssa.Value) *ssa.Alloc {
	for {
		switch x := v.(type) {
		case *ssa.Alloc:
			return x
		case *ssa.FieldAddr:
			v = x.X
		case *ssa.IndexAddr:
			v = x.X
		default:
			return nil
		}
	}
}

// escapes: the alloc's address flows somewhere other than field/index
// addressing, loads and stores *to* it.
func allocEscapes(a *ssa.Alloc) bool {
	var visit func(v ssa.Value) bool
	visit = func(v ssa.Value) bool {
		refs := v.Referrers()
		if refs == nil {
			return true
		}
		for _, r := range *refs {
			switch r := r.(type) {
			case *ssa.FieldAddr:
				if visit(r) {
					return true
				}
			case *ssa.IndexAddr:
				if visit(r) {
					return true
				}
			case *ssa.UnOp:
				if r.Op != token.MUL {
					return true
				}
			case *ssa.Store:
				if r.Val == v {
					return true
				}
			case *ssa.DebugRef:
			case *ssa.MakeClosure:
				// captured by a closure that only reads it: no hidden writes
				fn, _ := r.Fn.(*ssa.Function)
				if fn == nil {
					return true
				}
				for i, b := range r.Bindings {
					if b != v || i >= len(fn.FreeVars) {
						continue
					}
					fv := fn.FreeVars[i]
					if fv.Referrers() == nil {
						return true
					}
					for _, u := range *fv.Referrers() {
						switch u := u.(type) {
						case *ssa.UnOp:
							if u.Op != token.MUL {
								return true
							}
						case *ssa.DebugRef:
						default:
							return true
						}
					}
				}
			case *ssa.Slice:
				// varargs arrays: sliced and passed to a call; contents are
				// read by the callee only (append/log) - treat as non-escaping
				// for our store, the Slice consumer reads it eagerly.
			default:
				return true
			}
		}
		return false
	}
	return visit(a)
}

// hasWholeStore: some instruction stores a whole value into the alloc (e.g. a
// spilled parameter); such a local is not "uninitialised" when a region
// starts after that store.
func hasWholeStore(a *ssa.Alloc) bool {
	if a.Referrers() == nil {
		return false
	}
	for _, r := range *a.Referrers() {
		if st, ok := r.(*ssa.Store); ok && st.Addr == a {
			return true
		}
	}
	return false
}

func structFieldName(t types.Type, i int) string {
	if p, ok := t.Underlying().(*types.Pointer); ok {
		t = p.Elem()
	}
	st, ok := t.Underlying().(*types.Struct)
	if !ok || i >= st.NumFields() {
		return fmt.Sprintf("f%d", i)
	}
	return st.Field(i).Name()
}

func (w *Walker) phiName(p *ssa.Phi) string {
	if n, ok := w.PhiNames[p]; ok {
		return n
	}
	return p.Comment
}

func (w *Walker) compute(s *State, fr *frame, v ssa.Value, useMem bool) *Term {
	switch v := v.(type) {
	case *ssa.Phi:
		return &Term{K: "phi", S: w.phiName(v), V: v}
	case *ssa.Alloc:
		if v.Heap {
			return &Term{K: "alloc", S: v.Comment, V: v, ID: v.Name()}
		}
		return &Term{K: "alloc", S: v.Comment, V: v, ID: v.Name()}
	case *ssa.FieldAddr:
		return &Term{K: "faddr", S: structFieldName(v.X.Type(), v.Field), A: []*Term{w.eval(s, fr, v.X)}, V: v}
	case *ssa.Field:
		base := w.eval(s, fr, v.X)
		name := structFieldName(v.X.Type(), v.Field)
		if base.K == "struct" && v.Field < len(base.A) && base.A[v.Field] != nil {
			return base.A[v.Field]
		}
		return &Term{K: "field", S: name, A: []*Term{base}, V: v}
	case *ssa.IndexAddr:
		return &Term{K: "iaddr", A: []*Term{w.eval(s, fr, v.X), w.eval(s, fr, v.Index)}, V: v}
	case *ssa.Index:
		return &Term{K: "index", A: []*Term{w.eval(s, fr, v.X), w.eval(s, fr, v.Index)}, V: v}
	case *ssa.UnOp:
		x := w.eval(s, fr, v.X)
		switch v.Op {
		case token.MUL:
			return w.load(s, x, v, useMem)
		case token.NOT:
			if x.K == "const" {
				if x.S == "true" {
					return tFalse
				}
				if x.S == "false" {
					return tTrue
				}
			}
			if x.K == "not" {
				return x.A[0]
			}
			return &Term{K: "not", A: []*Term{x}, V: v}
		case token.ARROW:
			return &Term{K: "recv", A: []*Term{x}, V: v, ID: v.Name()}
		}
		return &Term{K: "unop", S: v.Op.String(), A: []*Term{x}, V: v}
	case *ssa.BinOp:
		return w.binop(s, fr, v)
	case *ssa.Extract:
		tup := w.eval(s, fr, v.Tuple)
		if tup.K == "tuple" && v.Index < len(tup.A) {
			return tup.A[v.Index]
		}
		if sel, ok := v.Tuple.(*ssa.Select); ok {
			_ = sel
			if v.Index == 0 {
				if tup.K == "select" && tup.S != "" {
					return &Term{K: "const", S: tup.S}
				}
				return &Term{K: "selidx", A: []*Term{tup}}
			}
			if v.Index == 1 {
				return &Term{K: "selok", A: []*Term{tup}}
			}
			return &Term{K: "selrecv", S: strconv.Itoa(v.Index - 2), A: []*Term{tup}}
		}
		return &Term{K: "extract", S: strconv.Itoa(v.Index), A: []*Term{tup}, V: v}
	case *ssa.Call:
		// not executed on this path (outside region): structural only
		return w.callTerm(s, fr, v, &v.Call)
	case *ssa.Lookup:
		return &Term{K: "lookup", A: []*Term{w.eval(s, fr, v.X), w.eval(s, fr, v.Index)}, V: v, ID: v.Name()}
	case *ssa.ChangeInterface:
		return w.eval(s, fr, v.X)
	case *ssa.ChangeType:
		return w.eval(s, fr, v.X)
	case *ssa.MakeInterface:
		return w.eval(s, fr, v.X)
	case *ssa.Convert:
		x := w.eval(s, fr, v.X)
		if types.Identical(v.X.Type().Underlying(), v.Type().Underlying()) {
			return x
		}
		return &Term{K: "convert", S: typeStr(v.Type()), A: []*Term{x}, V: v}
	case *ssa.MakeMap:
		return &Term{K: "makemap", V: v, ID: v.Name()}
	case *ssa.MakeChan:
		return &Term{K: "makechan", A: []*Term{w.eval(s, fr, v.Size)}, V: v, ID: v.Name()}
	case *ssa.MakeSlice:
		return &Term{K: "makeslice", V: v, ID: v.Name()}
	case *ssa.Slice:
		return &Term{K: "slice", A: []*Term{w.eval(s, fr, v.X)}, V: v}
	case *ssa.Select:
		return &Term{K: "select", V: v, ID: v.Name()}
	case *ssa.Range:
		return &Term{K: "range", A: []*Term{w.eval(s, fr, v.X)}, V: v, ID: v.Name()}
	case *ssa.Next:
		return &Term{K: "next", A: []*Term{w.eval(s, fr, v.Iter)}, V: v, ID: v.Name()}
	case *ssa.TypeAssert:
		return &Term{K: "typeassert", S: typeStr(v.AssertedType), A: []*Term{w.eval(s, fr, v.X)}, V: v}
	case *ssa.MakeClosure:
		t := &Term{K: "closure", S: fnName(v.Fn.(*ssa.Function)), Fn: v.Fn.(*ssa.Function), V: v}
		for _, b := range v.Bindings {
			t.A = append(t.A, w.eval(s, fr, b))
		}
		return t
	}
	return &Term{K: "unknown", S: fmt.Sprintf("%T", v), V: v, ID: v.Name()}
}

func (w *Walker) load(s *State, addr *Term, v *ssa.UnOp, useMem bool) *Term {
	key := addr.Key()
	if useMem {
		if t, ok := s.mem[key]; ok {
			return t
		}
		// field of a whole-stored struct
		if addr.K == "faddr" {
			if whole, ok := s.mem[addr.A[0].Key()]; ok {
				if fa, ok := v.X.(*ssa.FieldAddr); ok && whole.K == "struct" && fa.Field < len(whole.A) && whole.A[fa.Field] != nil {
					return whole.A[fa.Field]
				}
				return &Term{K: "field", S: addr.S, A: []*Term{whole}, V: v}
			}
		}
		// whole struct built from per-field stores
		if st, ok := v.Type().Underlying().(*types.Struct); ok && (addr.K == "alloc") {
			t := &Term{K: "struct", S: typeStr(v.Type()), V: v}
			any := false
			for i := 0; i < st.NumFields(); i++ {
				fk := "&" + key + "." + st.Field(i).Name()
				if ft, ok := s.mem[fk]; ok {
					t.A = append(t.A, ft)
					any = true
				} else {
					t.A = append(t.A, &Term{K: "const", S: "zero:" + typeStr(st.Field(i).Type())})
				}
			}
			if any {
				return t
			}
			if st.NumFields() == 0 {
				return t
			}
		}
	}
	switch addr.K {
	case "faddr":
		return &Term{K: "field", S: addr.S, A: []*Term{deaddr(addr.A[0])}, V: v}
	case "iaddr":
		return &Term{K: "index", A: addr.A, V: v}
	case "alloc":
		// uninitialised local: zero value
		if useMem {
			if a, ok := addr.V.(*ssa.Alloc); ok && !allocEscapes(a) && !hasWholeStore(a) {
				et := a.Type().Underlying().(*types.Pointer).Elem()
				switch et.Underlying().(type) {
				case *types.Struct, *types.Array, *types.Basic:
					return &Term{K: "const", S: "zero:" + typeStr(et)}
				default:
					return tNil
				}
			}
		}
	}
	return &Term{K: "load", A: []*Term{addr}, V: v}
}

// deaddr turns nested field addresses into field paths: &(&p.A).B loaded is p.A.B
func deaddr(t *Term) *Term {
	if t != nil && t.K == "faddr" {
		return &Term{K: "field", S: t.S, A: []*Term{deaddr(t.A[0])}, V: t.V}
	}
	return t
}

func (w *Walker) binop(s *State, fr *frame, v *ssa.BinOp) *Term {
	x, y := w.eval(s, fr, v.X), w.eval(s, fr, v.Y)
	op := v.Op
	switch op {
	case token.EQL, token.NEQ:
		// constant folding
		if x.K == "const" && y.K == "const" && !strings.HasPrefix(x.S, "zero:") && !strings.HasPrefix(y.S, "zero:") {
			eq := x.S == y.S
			if (op == token.EQL) == eq {
				return tTrue
			}
			return tFalse
		}
		// nil tests against provably non-nil values
		if y.IsNil() && x.nonNil() || x.IsNil() && y.nonNil() {
			if op == token.EQL {
				return tFalse
			}
			return tTrue
		}
		if x.Key() > y.Key() {
			x, y = y, x
		}
		if op == token.NEQ {
			return &Term{K: "not", A: []*Term{{K: "binop", S: "==", A: []*Term{x, y}, V: v}}}
		}
		return &Term{K: "binop", S: "==", A: []*Term{x, y}, V: v}
	case token.GTR:
		op, x, y = token.LSS, y, x
	case token.GEQ:
		op, x, y = token.LEQ, y, x
	}
	if op == token.LEQ {
		// a <= b  ==  !(b < a)
		return &Term{K: "not", A: []*Term{{K: "binop", S: "<", A: []*Term{y, x}, V: v}}}
	}
	return &Term{K: "binop", S: op.String(), A: []*Term{x, y}, V: v}
}

func calleeName(c *ssa.CallCommon) string {
	if f := c.StaticCallee(); f != nil {
		return fnName(f)
	}
	return ""
}

func (w *Walker) callTerm(s *State, fr *frame, v ssa.Value, c *ssa.CallCommon) *Term {
	id := ""
	if v != nil {
		id = v.Name()
	}
	if c.IsInvoke() {
		t := &Term{K: "invoke", S: c.Method.Name(), V: v, ID: id}
		t.A = append(t.A, w.eval(s, fr, c.Value))
		for _, a := range c.Args {
			t.A = append(t.A, w.eval(s, fr, a))
		}
		if _, ok := pureInvoke[c.Method.Name()]; ok && len(c.Args) == 0 {
			t.ID = ""
		}
		return t
	}
	if b, ok := c.Value.(*ssa.Builtin); ok {
		t := &Term{K: "builtin", S: b.Name(), V: v, ID: id}
		for _, a := range c.Args {
			t.A = append(t.A, w.eval(s, fr, a))
		}
		if b.Name() == "len" || b.Name() == "cap" {
			t.ID = ""
			t.K = "len"
			if b.Name() == "cap" {
				t.K = "cap"
			}
			t.S = ""
		}
		return t
	}
	if f := c.StaticCallee(); f != nil {
		t := &Term{K: "call", S: fnName(f), Fn: f, V: v, ID: id}
		for i, a := range c.Args {
			if sl, ok := a.(*ssa.Slice); ok && f.Signature.Variadic() && i == len(c.Args)-1 {
				if _, ok := sl.X.(*ssa.Alloc); ok {
					t.A = append(t.A, &Term{K: "varargs", A: w.sliceElems(s, fr, a)})
					continue
				}
			}
			t.A = append(t.A, w.eval(s, fr, a))
		}
		if _, ok := pureStatic[t.S]; ok {
			t.ID = ""
		}
		return t
	}
	t := &Term{K: "dyncall", V: v, ID: id}
	t.A = append(t.A, w.eval(s, fr, c.Value))
	for _, a := range c.Args {
		t.A = append(t.A, w.eval(s, fr, a))
	}
	return t
}

// ---------- literals ----------

// addLit records that cond evaluated to val; returns false if infeasible.
func (w *Walker) addLit(s *State, t *Term, val bool, in ssa.Instruction) bool {
	for t.K == "not" {
		t = t.A[0]
		val = !val
	}
	if t.K == "const" {
		return (t.S == "true") == val
	}
	// pkg/errors.Wrap/Wrapf/WithStack/WithMessage(err, …) is nil exactly when err is nil: a nil test
	// of the wrapped error is a nil test of the cause (a helper that returns a wrapped error and a
	// caller that tests it decide the same thing as the original inline test)
	if t.K == "binop" && t.S == "==" && len(t.A) == 2 {
		for i := 0; i < 2; i++ {
			x, other := t.A[i], t.A[1-i]
			for x.K == "call" && other.IsNil() && len(x.A) >= 1 && nilPreservingWrap[x.S] {
				x = x.A[0]
			}
			if x != t.A[i] {
				nt := &Term{K: "binop", S: "==", A: []*Term{nil, nil}}
				nt.A[i], nt.A[1-i] = x, other
				t = nt
				break
			}
		}
		if t.A[0].IsNil() && t.A[1].IsNil() {
			return val
		}
	}
	key := t.Key()
	for _, l := range s.lits {
		if l.T.Key() == key {
			return l.Val == val
		}
	}
	// order atoms
	if t.K == "binop" && (t.S == "<" || t.S == "==") {
		a, b := t.A[0], t.A[1]
		m := relLT
		if t.S == "==" {
			m = relEQ
		}
		if !val {
			m = (relLT | relEQ | relGT) &^ m
		}
		ak, bk := a.Key(), b.Key()
		if ak > bk {
			ak, bk = bk, ak
			m = mirrorMask(m)
		}
		pk := ak + " ? " + bk
		cur, ok := s.rel[pk]
		if !ok {
			cur = relLT | relEQ | relGT
		}
		cur &= m
		if cur == 0 {
			return false
		}
		s.rel[pk] = cur
	}
	s.lits = append(s.lits, Lit{T: t, Val: val, In: in})
	return true
}

// ---------- walking ----------

func (w *Walker) Run(fn *ssa.Function, start *ssa.BasicBlock, stops map[*ssa.BasicBlock]bool) []*Path {
	if w.Limit == 0 {
		w.Limit = 4000
	}
	w.Start = start
	w.Stops = stops
	w.Paths = nil
	if w.Inline == nil {
		// default: same-package helpers without loops, goroutines, defers or closures are
		// looked through, so that "extract a helper" refactorings leave the paths unchanged
		w.Inline = autoInline(w.P, fn, 60)
	}
	fr := &frame{fn: fn}
	fr.params = w.receiverFieldParams(fn)
	s := newState()
	w.walkFrom(s, fr, start, 0, nil, true)
	return w.Paths
}

// receiverFieldParams: for a private method or receiver-first function, a parameter that every
// call site fills with the same field path of the very receiver it calls on
// (`c.distribute(c.subscription, evs)`) stands for that field of the receiver; passing a field
// explicitly or reading it inside are then the same thing to every rule.
func (w *Walker) receiverFieldParams(fn *ssa.Function) map[*ssa.Parameter]*Term {
	if fn.Parent() != nil || len(fn.Params) < 2 || fn.Object() == nil || fn.Object().Exported() {
		return nil
	}
	if fn.Signature.Recv() == nil && recvLikeType(fn) == "" {
		return nil
	}
	if memo, ok := w.P.rfpMemo[fn]; ok {
		return memo
	}
	var out map[*ssa.Parameter]*Term
	defer func() {
		if w.P.rfpMemo == nil {
			w.P.rfpMemo = map[*ssa.Function]map[*ssa.Parameter]*Term{}
		}
		w.P.rfpMemo[fn] = out
	}()
	sites := w.P.callersOf(fn)
	if len(sites) == 0 {
		return nil
	}
	recv := &Term{K: "param", S: fn.Params[0].Name(), V: fn.Params[0]}
	for idx := 1; idx < len(fn.Params); idx++ {
		var path []string
		ok := true
		for _, site := range sites {
			ci, isCall := site.In.(ssa.CallInstruction)
			if !isCall || site.Kind == "value" || idx >= len(ci.Common().Args) {
				ok = false
				break
			}
			cfr := &frame{fn: site.Fn}
			st := newState()
			r := w.eval(st, cfr, ci.Common().Args[0])
			a := w.eval(st, cfr, ci.Common().Args[idx])
			// a must be r.f1.f2…
			var fields []string
			x := a
			for x != nil && x.K == "field" && len(x.A) == 1 {
				fields = append([]string{x.S}, fields...)
				x = x.A[0]
			}
			if len(fields) == 0 || x == nil || r == nil || x.Key() != r.Key() || (r.K != "param" && r.K != "freevar") {
				ok = false
				break
			}
			if path == nil {
				path = fields
			} else if strings.Join(path, ".") != strings.Join(fields, ".") {
				ok = false
				break
			}
		}
		if !ok || path == nil {
			continue
		}
		t := recv
		for _, f := range path {
			t = &Term{K: "field", S: f, A: []*Term{t}}
		}
		if out == nil {
			out = map[*ssa.Parameter]*Term{}
		}
		out[fn.Params[idx]] = t
	}
	return out
}

func (w *Walker) endPath(s *State, end PathEnd, phiNext map[string]*Term) {
	if len(w.Paths) >= w.Limit {
		w.Truncated = true
		return
	}
	p := &Path{Lits: s.lits, Rel: s.rel, Effects: s.effects, End: end, PhiNext: phiNext, Blocks: s.blocks, State: s}
	w.Paths = append(w.Paths, p)
}

func predIndex(b, pred *ssa.BasicBlock) int {
	for i, p := range b.Preds {
		if p == pred {
			return i
		}
	}
	return -1
}

func (w *Walker) walkFrom(s *State, fr *frame, b *ssa.BasicBlock, idx int, pred *ssa.BasicBlock, first bool) {
	if w.Truncated {
		return
	}
	if idx == 0 {
		if !first && w.Stops[b] {
			next := map[string]*Term{}
			if pi := predIndex(b, pred); pi >= 0 {
				for _, in := range b.Instrs {
					phi, ok := in.(*ssa.Phi)
					if !ok {
						break
					}
					next[w.phiName(phi)] = w.eval(s, fr, phi.Edges[pi])
				}
			}
			w.endPath(s, PathEnd{Kind: "stop", Block: b, From: pred}, next)
			return
		}
		if !first {
			for _, te := range s.trail {
				if te.depth == fr.depth && te.b == b {
					w.endPath(s, PathEnd{Kind: "cycle", Block: b, From: pred}, nil)
					return
				}
			}
		}
		s.trail = append(s.trail, trailEnt{fr.depth, b})
		if fr.depth == 0 {
			s.blocks = append(s.blocks, b.Index)
		}
		// resolve phis for the incoming edge
		if pred != nil {
			if pi := predIndex(b, pred); pi >= 0 {
				var vals []*Term
				var phis []*ssa.Phi
				for _, in := range b.Instrs {
					phi, ok := in.(*ssa.Phi)
					if !ok {
						break
					}
					phis = append(phis, phi)
					vals = append(vals, w.eval(s, fr, phi.Edges[pi]))
				}
				for i, phi := range phis {
					s.val[phi] = vals[i]
				}
			}
		} else if first {
			for _, in := range b.Instrs {
				phi, ok := in.(*ssa.Phi)
				if !ok {
					break
				}
				s.val[phi] = &Term{K: "phi", S: w.phiName(phi), V: phi}
			}
		}
	}
	for i := idx; i < len(b.Instrs); i++ {
		in := b.Instrs[i]
		switch in := in.(type) {
		case *ssa.Phi, *ssa.DebugRef:
			continue
		case *ssa.Store:
			w.store(s, fr, in)
		case *ssa.MapUpdate:
			s.effects = append(s.effects, &Effect{Kind: "mapupdate", In: in, Addr: w.eval(s, fr, in.Map), Args: []*Term{w.eval(s, fr, in.Key)}, Val: w.eval(s, fr, in.Value), Depth: fr.depth})
		case *ssa.Send:
			s.effects = append(s.effects, &Effect{Kind: "send", In: in, Addr: w.eval(s, fr, in.Chan), Val: w.eval(s, fr, in.X), Depth: fr.depth})
		case *ssa.Go:
			s.effects = append(s.effects, w.callEffect(s, fr, "go", in, nil, &in.Call))
		case *ssa.Defer:
			s.effects = append(s.effects, w.callEffect(s, fr, "defer", in, nil, &in.Call))
		case *ssa.RunDefers:
			s.effects = append(s.effects, &Effect{Kind: "rundefers", In: in, Depth: fr.depth})
		case *ssa.Call:
			if w.call(s, fr, b, i, in) {
				return // continued inside inlined callee
			}
		case *ssa.Select:
			w.selectInstr(s, fr, b, i, in)
			return
		case *ssa.Return:
			var rs []*Term
			for _, r := range in.Results {
				rs = append(rs, w.eval(s, fr, r))
			}
			if fr.ret != nil {
				// pop trail entries of this frame
				var tr []trailEnt
				for _, te := range s.trail {
					if te.depth < fr.depth {
						tr = append(tr, te)
					}
				}
				s.trail = tr
				fr.ret(s, rs)
				return
			}
			w.endPath(s, PathEnd{Kind: "return", Block: b, Results: rs, In: in}, nil)
			return
		case *ssa.Panic:
			w.endPath(s, PathEnd{Kind: "panic", Block: b, In: in}, nil)
			return
		case *ssa.Jump:
			w.walkFrom(s, fr, b.Succs[0], 0, b, false)
			return
		case *ssa.If:
			cond := w.eval(s, fr, in.Cond)
			for k, succ := range b.Succs {
				n := s
				if k == 0 {
					n = s.clone()
				}
				if !w.addLit(n, cond, k == 0, in) {
					continue
				}
				w.walkFrom(n, fr, succ, 0, b, false)
			}
			return
		default:
			if v, ok := in.(ssa.Value); ok {
				t := w.compute(s, fr, v, true)
				s.val[v] = t
				if u, ok := in.(*ssa.UnOp); ok && u.Op == token.ARROW {
					s.effects = append(s.effects, &Effect{Kind: "recv", In: in, Addr: t.A[0], Res: t, Depth: fr.depth})
					if u.CommaOk {
						s.val[v] = &Term{K: "tuple", A: []*Term{t, {K: "recvok", A: []*Term{t}}}}
					}
				}
				if ta, ok := in.(*ssa.TypeAssert); ok && ta.CommaOk {
					s.val[v] = &Term{K: "tuple", A: []*Term{t, {K: "assertok", S: t.S, A: []*Term{t.A[0]}}}}
				}
				if lk, ok := in.(*ssa.Lookup); ok && lk.CommaOk {
					s.val[v] = &Term{K: "tuple", A: []*Term{t, {K: "lookupok", A: []*Term{t}}}}
				}
			}
		}
	}
}

func (w *Walker) store(s *State, fr *frame, in *ssa.Store) {
	addr := w.eval(s, fr, in.Addr)
	val := w.eval(s, fr, in.Val)
	key := addr.Key()
	// whole-value store invalidates field entries below it
	prefix := "&" + key + "."
	for k := range s.mem {
		if strings.HasPrefix(k, prefix) {
			delete(s.mem, k)
		}
	}
	s.mem[key] = val
	root := addrRoot(in.Addr)
	if root != nil && !allocEscapes(root) {
		s.memRoot[key] = root
		return
	}
	delete(s.memRoot, key)
	if root != nil && strings.Contains(root.Comment, "varargs") {
		return
	}
	s.effects = append(s.effects, &Effect{Kind: "store", In: in, Addr: addr, Val: val, Depth: fr.depth})
}

// invalidateHeap forgets everything that an unknown callee could have changed.
func (s *State) invalidateHeap() {
	for k := range s.mem {
		if _, ok := s.memRoot[k]; !ok {
			delete(s.mem, k)
		}
	}
}

func (w *Walker) callEffect(s *State, fr *frame, kind string, in ssa.Instruction, v ssa.Value, c *ssa.CallCommon) *Effect {
	e := &Effect{Kind: kind, In: in, Depth: fr.depth}
	t := w.callTerm(s, fr, v, c)
	e.Res = t
	switch {
	case c.IsInvoke():
		e.Mode = "invoke"
		e.Method = c.Method.Name()
		e.Recv = t.A[0]
		e.Args = t.A[1:]
		if kind == "call" {
			e.Kind = "invoke"
		}
	case t.K == "builtin" || t.K == "len" || t.K == "cap":
		e.Mode = "builtin"
		if b, ok := c.Value.(*ssa.Builtin); ok {
			e.Method = b.Name()
		}
		e.Args = t.A
	case c.StaticCallee() != nil:
		e.Mode = "call"
		e.Fn = c.StaticCallee()
		e.Args = t.A
		// closures called directly: bindings
		if mc, ok := c.Value.(*ssa.MakeClosure); ok {
			ct := w.eval(s, fr, mc)
			e.Recv = ct
		}
	default:
		e.Mode = "dyncall"
		e.Recv = t.A[0]
		e.Args = t.A[1:]
		if kind == "call" {
			e.Kind = "dyncall"
		}
	}
	return e
}

// call handles a Call instruction.  Returns true if the walk continued in an
// inlined callee (the caller must stop processing the block).
func (w *Walker) call(s *State, fr *frame, b *ssa.BasicBlock, i int, in *ssa.Call) bool {
	c := &in.Call
	if isLogCall(c) {
		s.val[in] = &Term{K: "log", ID: in.Name()}
		return false
	}
	if bi, ok := c.Value.(*ssa.Builtin); ok {
		switch bi.Name() {
		case "len", "cap":
			s.val[in] = w.callTerm(s, fr, in, c)
			return false
		case "append":
			base := w.eval(s, fr, c.Args[0])
			elems := w.sliceElems(s, fr, c.Args[1])
			t := &Term{K: "append", A: append([]*Term{base}, elems...), V: in}
			s.val[in] = t
			s.effects = append(s.effects, &Effect{Kind: "append", In: in, Args: append([]*Term{base}, elems...), Res: t, Depth: fr.depth})
			return false
		case "close":
			s.effects = append(s.effects, &Effect{Kind: "close", In: in, Addr: w.eval(s, fr, c.Args[0]), Depth: fr.depth})
			return false
		case "delete":
			s.effects = append(s.effects, &Effect{Kind: "mapdelete", In: in, Addr: w.eval(s, fr, c.Args[0]), Args: []*Term{w.eval(s, fr, c.Args[1])}, Depth: fr.depth})
			return false
		case "copy":
			e := w.callEffect(s, fr, "builtin", in, in, c)
			s.effects = append(s.effects, e)
			s.val[in] = e.Res
			return false
		default:
			e := w.callEffect(s, fr, "builtin", in, in, c)
			s.effects = append(s.effects, e)
			s.val[in] = e.Res
			return false
		}
	}
	if f := c.StaticCallee(); f != nil && harmlessStd(f) {
		// a value for a log line or a message: not an effect; anything that branches on it still
		// shows up as a path condition
		s.val[in] = w.callTerm(s, fr, in, c)
		return false
	}
	if f := c.StaticCallee(); f != nil && w.Inline[f] && f.Blocks != nil && fr.depth < 3 {
		nf := &frame{fn: f, depth: fr.depth + 1, params: map[*ssa.Parameter]*Term{}}
		for k, p := range f.Params {
			if k < len(c.Args) {
				nf.params[p] = w.eval(s, fr, c.Args[k])
			}
		}
		nf.ret = func(s2 *State, results []*Term) {
			switch len(results) {
			case 0:
				s2.val[in] = &Term{K: "void"}
			case 1:
				s2.val[in] = results[0]
			default:
				s2.val[in] = &Term{K: "tuple", A: results}
			}
			w.walkFrom(s2, fr, b, i+1, nil, false)
		}
		w.walkFrom(s, nf, f.Blocks[0], 0, nil, true)
		return true
	}
	e := w.callEffect(s, fr, "call", in, in, c)
	s.val[in] = e.Res
	pure := e.Res.ID == ""
	s.effects = append(s.effects, e)
	if !pure {
		s.invalidateHeap()
	}
	return false
}

// sliceElems resolves the elements of a varargs slice (new [n]T; stores; slice).
func (w *Walker) sliceElems(s *State, fr *frame, v ssa.Value) []*Term {
	if sl, ok := v.(*ssa.Slice); ok {
		if a, ok := sl.X.(*ssa.Alloc); ok {
			if at, ok := a.Type().Underlying().(*types.Pointer).Elem().Underlying().(*types.Array); ok {
				base := w.eval(s, fr, a)
				var out []*Term
				for i := int64(0); i < at.Len(); i++ {
					k := (&Term{K: "iaddr", A: []*Term{base, {K: "const", S: strconv.FormatInt(i, 10)}}}).Key()
					if t, ok := s.mem[k]; ok {
						out = append(out, t)
					} else {
						out = append(out, &Term{K: "unknown", S: "elem"})
					}
				}
				return out
			}
		}
	}
	t := w.eval(s, fr, v)
	if t.IsNil() {
		return nil
	}
	return []*Term{{K: "spread", A: []*Term{t}}}
}

func (w *Walker) selectInstr(s *State, fr *frame, b *ssa.BasicBlock, i int, in *ssa.Select) {
	var st []SelState
	for _, c := range in.States {
		x := SelState{Dir: c.Dir, Chan: w.eval(s, fr, c.Chan)}
		if c.Send != nil {
			x.Send = w.eval(s, fr, c.Send)
		}
		st = append(st, x)
	}
	arms := len(in.States)
	lo := 0
	if !in.Blocking {
		lo = -1
	}
	for k := arms - 1; k >= lo; k-- {
		n := s
		if k != lo {
			n = s.clone()
		}
		// a nil channel's arm can never fire
		if k >= 0 && st[k].Chan.IsNil() {
			continue
		}
		sel := &Term{K: "select", S: strconv.Itoa(k), V: in, ID: in.Name()}
		n.val[in] = sel
		n.effects = append(n.effects, &Effect{Kind: "select", In: in, Sel: st, Blocking: in.Blocking, Arm: k, Res: sel, Depth: fr.depth})
		w.walkFrom(n, fr, b, i+1, nil, false)
	}
}

// ---------- regions ----------

// Loop describes a natural loop.
type Loop struct {
	Header *ssa.BasicBlock
	Body   map[*ssa.BasicBlock]bool
	// Via is set when the loop lives in a private helper of the function the
	// rule is about ("run() { prelude; x.serve(args); tail }"): the one call
	// through which it is reached.  Regions are then walked across the two
	// frames, so where the loop's text lives does not change the paths.
	Via *ssa.Call
}

// fn returns the function that contains the loop.
func (l *Loop) fn() *ssa.Function { return l.Header.Parent() }

func findLoops(fn *ssa.Function) []*Loop {
	byHeader := map[*ssa.BasicBlock]*Loop{}
	for _, b := range fn.Blocks {
		for _, succ := range b.Succs {
			if succ.Dominates(b) {
				l := byHeader[succ]
				if l == nil {
					l = &Loop{Header: succ, Body: map[*ssa.BasicBlock]bool{succ: true}}
					byHeader[succ] = l
				}
				// collect body: nodes that reach b without passing header
				stack := []*ssa.BasicBlock{b}
				for len(stack) > 0 {
					x := stack[len(stack)-1]
					stack = stack[:len(stack)-1]
					if l.Body[x] {
						continue
					}
					l.Body[x] = true
					for _, p := range x.Preds {
						stack = append(stack, p)
					}
				}
			}
		}
	}
	var out []*Loop
	for _, l := range byHeader {
		out = append(out, l)
	}
	sort.Slice(out, func(i, j int) bool { return out[i].Header.Index < out[j].Header.Index })
	return out
}

// loopContaining returns the innermost loop whose body contains b.
func loopContaining(loops []*Loop, b *ssa.BasicBlock) *Loop {
	var best *Loop
	for _, l := range loops {
		if l.Body[b] && (best == nil || len(l.Body) < len(best.Body)) {
			best = l
		}
	}
	return best
}

// LoopRegion walks one iteration of loop l: from the header to the header
// (back-edge) or out of the loop.
func (w *Walker) LoopRegion(fn *ssa.Function, l *Loop) []*Path {
	stops := map[*ssa.BasicBlock]bool{l.Header: true}
	for _, b := range l.fn().Blocks {
		if !l.Body[b] {
			stops[b] = true
		}
	}
	if l.Via != nil {
		return w.runVia(fn, l, stops)
	}
	return w.Run(fn, l.Header, stops)
}

// runVia starts at the header of a loop that lives in a helper called from
// outer (l.Via): the helper's parameters are bound to the call's arguments
// and its return continues in outer after the call.
func (w *Walker) runVia(outer *ssa.Function, l *Loop, stops map[*ssa.BasicBlock]bool) []*Path {
	if w.Limit == 0 {
		w.Limit = 4000
	}
	inner := l.fn()
	w.Start = l.Header
	w.Stops = stops
	w.Paths = nil
	if w.Inline == nil {
		w.Inline = autoInline(w.P, outer, 60)
	}
	for g := range autoInline(w.P, inner, 60) {
		w.Inline[g] = true
	}
	ofr := &frame{fn: outer}
	s := newState()
	ifr := &frame{fn: inner, params: map[*ssa.Parameter]*Term{}}
	for k, p := range inner.Params {
		if k < len(l.Via.Call.Args) {
			ifr.params[p] = w.eval(s, ofr, l.Via.Call.Args[k])
		}
	}
	b := l.Via.Block()
	idx := 0
	for i, in := range b.Instrs {
		if in == ssa.Instruction(l.Via) {
			idx = i
		}
	}
	via := l.Via
	ifr.ret = func(s2 *State, results []*Term) {
		switch len(results) {
		case 0:
			s2.val[via] = &Term{K: "void"}
		case 1:
			s2.val[via] = results[0]
		default:
			s2.val[via] = &Term{K: "tuple", A: results}
		}
		w.walkFrom(s2, ofr, b, idx+1, nil, false)
	}
	w.walkFrom(s, ifr, l.Header, 0, nil, true)
	return w.Paths
}

// FuncRegion walks the whole function from entry; loops end paths as "cycle".
func (w *Walker) FuncRegion(fn *ssa.Function) []*Path {
	return w.Run(fn, fn.Blocks[0], map[*ssa.BasicBlock]bool{})
}

// dumpPaths renders paths for -dump and for violation reports.
func dumpPaths(p *Prog, paths []*Path) string {
	var b strings.Builder
	for i, pa := range paths {
		b.WriteString(dumpPath(p, i, pa))
	}
	return b.String()
}

func dumpPath(p *Prog, i int, pa *Path) string {
	var b strings.Builder
	end := pa.End.Kind
	if pa.End.Block != nil {
		end += fmt.Sprintf("->%d(%s)", pa.End.Block.Index, pa.End.Block.Comment)
	}
	if pa.End.Kind == "return" {
		var rs []string
		for _, r := range pa.End.Results {
			rs = append(rs, r.Key())
		}
		end += " " + strings.Join(rs, ", ")
	}
	fmt.Fprintf(&b, "--- path %d blocks=%v end=%s\n", i, pa.Blocks, end)
	for _, l := range pa.Lits {
		fmt.Fprintf(&b, "    IF   %s\n", l.String())
	}
	var rk []string
	for k := range pa.Rel {
		rk = append(rk, k)
	}
	sort.Strings(rk)
	for _, k := range rk {
		fmt.Fprintf(&b, "    REL  %s : %s\n", k, maskStr(pa.Rel[k]))
	}
	for _, e := range pa.Effects {
		fmt.Fprintf(&b, "    DO   %s\n", e.String())
	}
	var ks []string
	for k := range pa.PhiNext {
		ks = append(ks, k)
	}
	sort.Strings(ks)
	for _, k := range ks {
		fmt.Fprintf(&b, "    NEXT %s = %s\n", k, pa.PhiNext[k].Key())
	}
	return b.String()
}

// IterRegion walks one iteration of loop l starting at its header; a path
// ends at the back-edge to the header ("stop") or continues past the loop to
// the function's return (so the exit handlers and the post-loop tail are part
// of the path).  Other loops met on the way end the path as "cycle".
func (w *Walker) IterRegion(fn *ssa.Function, l *Loop) []*Path {
	if l.Via != nil {
		return w.runVia(fn, l, map[*ssa.BasicBlock]bool{l.Header: true})
	}
	return w.Run(fn, l.Header, map[*ssa.BasicBlock]bool{l.Header: true})
}

// PreludeRegion walks from the function entry to the header of loop l.
func (w *Walker) PreludeRegion(fn *ssa.Function, l *Loop) []*Path {
	if l.Via != nil {
		if w.Inline == nil {
			w.Inline = autoInline(w.P, fn, 60)
		}
		w.Inline[l.fn()] = true
	}
	return w.Run(fn, fn.Blocks[0], map[*ssa.BasicBlock]bool{l.Header: true})
}
